//! Case language for analysis calls and its execution against the *real* library.

use crate::spec::*;
use response_time_analysis::demand::{Aggregate, RequestBound, Slice};
use response_time_analysis::fixed_point::{SearchFailure, SearchResult};
use response_time_analysis::{edf, fifo, fixed_priority as fp, ros2, wcet};
use serde::{Deserialize, Serialize};

#[derive(Clone, Copy, Debug, Serialize, Deserialize, PartialEq, Eq, Hash, PartialOrd, Ord)]
pub enum Ana {
    FpP,
    FpNp,
    FpLp,
    FpFl,
    EdfP,
    EdfNp,
    EdfLp,
    EdfFl,
    Fifo,
}

pub const ALL_ANA: [Ana; 9] = [
    Ana::FpP,
    Ana::FpNp,
    Ana::FpLp,
    Ana::FpFl,
    Ana::EdfP,
    Ana::EdfNp,
    Ana::EdfLp,
    Ana::EdfFl,
    Ana::Fifo,
];

impl Ana {
    pub fn is_fp(self) -> bool {
        matches!(self, Ana::FpP | Ana::FpNp | Ana::FpLp | Ana::FpFl)
    }
    pub fn is_edf(self) -> bool {
        matches!(self, Ana::EdfP | Ana::EdfNp | Ana::EdfLp | Ana::EdfFl)
    }
    /// analyses whose interface takes a scalar WCET for the task under analysis
    pub fn tua_scalar(self) -> bool {
        matches!(self, Ana::FpNp | Ana::FpLp | Ana::EdfNp | Ana::EdfLp)
    }
    /// analyses whose interface takes scalar WCETs for the other tasks as well
    pub fn others_scalar(self) -> bool {
        matches!(self, Ana::EdfNp)
    }
    pub fn name(self) -> &'static str {
        match self {
            Ana::FpP => "fixed_priority::fully_preemptive",
            Ana::FpNp => "fixed_priority::fully_nonpreemptive",
            Ana::FpLp => "fixed_priority::limited_preemptive",
            Ana::FpFl => "fixed_priority::floating_nonpreemptive",
            Ana::EdfP => "edf::fully_preemptive",
            Ana::EdfNp => "edf::fully_nonpreemptive",
            Ana::EdfLp => "edf::limited_preemptive",
            Ana::EdfFl => "edf::floating_nonpreemptive",
            Ana::Fifo => "fifo",
        }
    }
}

#[derive(Clone, Debug, Serialize, Deserialize, PartialEq, Eq, Hash)]
pub struct TaskSpec {
    pub arr: ArrSpec,
    pub cost: CostSpec,
    /// relative deadline (EDF)
    pub deadline: u64,
    /// own last non-preemptive segment (LP analyses, task under analysis)
    pub last_seg: u64,
    /// longest non-preemptive segment (as an interfering task: EDF-LP / EDF-FL)
    pub max_seg: u64,
}

/// One call of one of the nine dedicated-processor analyses.
/// FP: `tasks[..tua]` are the higher-or-equal-priority tasks, lower-priority tasks enter only
/// through `blocking`.  EDF: all other tasks interfere.  FIFO: all tasks.
#[derive(Clone, Debug, Serialize, Deserialize, PartialEq, Eq, Hash)]
pub struct UniCase {
    pub ana: Ana,
    pub tasks: Vec<TaskSpec>,
    pub tua: usize,
    pub blocking: u64,
    pub limit: u64,
}

#[derive(Clone, Debug, Serialize, Deserialize, PartialEq, Eq, Hash, PartialOrd, Ord)]
pub enum Outcome {
    Ok(u64),
    Diverged { offset: u64, limit: u64 },
    Assumption,
    Panic,
}

impl Outcome {
    pub fn ok(&self) -> Option<u64> {
        match self {
            Outcome::Ok(v) => Some(*v),
            _ => None,
        }
    }
    pub fn is_err(&self) -> bool {
        matches!(self, Outcome::Diverged { .. } | Outcome::Assumption)
    }
}

pub fn outcome(r: SearchResult) -> Outcome {
    match r {
        Ok(v) => Outcome::Ok(du(v)),
        Err(SearchFailure::DivergenceLimitExceeded { offset, limit }) => Outcome::Diverged {
            offset: u64::from(offset),
            limit: du(limit),
        },
        Err(SearchFailure::AssumptionViolated) => Outcome::Assumption,
    }
}

pub fn run_uni(c: &UniCase) -> Outcome {
    let arrs: Vec<DynArr> = c.tasks.iter().map(|t| t.arr.build()).collect();
    let costs: Vec<DynCost> = c.tasks.iter().map(|t| t.cost.build()).collect();
    let rbfs: Vec<DynRbf> = arrs
        .iter()
        .zip(costs.iter())
        .map(|(a, w)| response_time_analysis::demand::RBF::new(a.clone(), w.clone()))
        .collect();
    let i = c.tua;
    let limit = d(c.limit);
    let bb = s(c.blocking);
    let scalar = |k: usize| wcet::Scalar::new(s(c.tasks[k].cost.scalar()));
    let others: Vec<usize> = (0..c.tasks.len()).filter(|k| *k != i).collect();
    let r = match c.ana {
        Ana::FpP => fp::fully_preemptive::dedicated_uniproc_rta(&rbfs[i], &rbfs[0..i], limit),
        Ana::FpNp => fp::fully_nonpreemptive::dedicated_uniproc_rta(
            &fp::fully_nonpreemptive::TaskUnderAnalysis {
                wcet: scalar(i),
                arrivals: &arrs[i],
                blocking_bound: bb,
            },
            &rbfs[0..i],
            limit,
        ),
        Ana::FpLp => fp::limited_preemptive::dedicated_uniproc_rta(
            &fp::limited_preemptive::TaskUnderAnalysis {
                wcet: scalar(i),
                arrivals: &arrs[i],
                last_np_segment: s(c.tasks[i].last_seg),
                blocking_bound: bb,
            },
            &rbfs[0..i],
            limit,
        ),
        Ana::FpFl => fp::floating_nonpreemptive::dedicated_uniproc_rta(
            &fp::floating_nonpreemptive::TaskUnderAnalysis {
                rbf: &rbfs[i],
                blocking_bound: bb,
            },
            &rbfs[0..i],
            limit,
        ),
        Ana::EdfP => {
            let o: Vec<_> = others
                .iter()
                .map(|k| edf::fully_preemptive::Task {
                    rbf: &rbfs[*k],
                    deadline: d(c.tasks[*k].deadline),
                })
                .collect();
            edf::fully_preemptive::dedicated_uniproc_rta(
                &edf::fully_preemptive::Task {
                    rbf: &rbfs[i],
                    deadline: d(c.tasks[i].deadline),
                },
                &o,
                limit,
            )
        }
        Ana::EdfNp => {
            let o: Vec<_> = others
                .iter()
                .map(|k| edf::fully_nonpreemptive::Task {
                    wcet: scalar(*k),
                    arrivals: &arrs[*k],
                    deadline: d(c.tasks[*k].deadline),
                })
                .collect();
            edf::fully_nonpreemptive::dedicated_uniproc_rta(
                &edf::fully_nonpreemptive::Task {
                    wcet: scalar(i),
                    arrivals: &arrs[i],
                    deadline: d(c.tasks[i].deadline),
                },
                &o,
                limit,
            )
        }
        Ana::EdfLp => {
            let o: Vec<_> = others
                .iter()
                .map(|k| edf::limited_preemptive::InterferingTask {
                    rbf: &rbfs[*k],
                    deadline: d(c.tasks[*k].deadline),
                    max_np_segment: s(c.tasks[*k].max_seg),
                })
                .collect();
            edf::limited_preemptive::dedicated_uniproc_rta(
                &edf::limited_preemptive::TaskUnderAnalysis {
                    wcet: scalar(i),
                    arrivals: &arrs[i],
                    deadline: d(c.tasks[i].deadline),
                    last_np_segment: s(c.tasks[i].last_seg),
                },
                &o,
                limit,
            )
        }
        Ana::EdfFl => {
            let o: Vec<_> = others
                .iter()
                .map(|k| edf::floating_nonpreemptive::InterferingTask {
                    rbf: &rbfs[*k],
                    deadline: d(c.tasks[*k].deadline),
                    max_np_segment: s(c.tasks[*k].max_seg),
                })
                .collect();
            edf::floating_nonpreemptive::dedicated_uniproc_rta(
                &edf::floating_nonpreemptive::TaskUnderAnalysis {
                    rbf: &rbfs[i],
                    deadline: d(c.tasks[i].deadline),
                },
                &o,
                limit,
            )
        }
        Ana::Fifo => fifo::dedicated_uniproc_rta(&Slice::of(&rbfs), limit),
    };
    outcome(r)
}

#[derive(Clone, Copy, Debug, Serialize, Deserialize, PartialEq, Eq, Hash, PartialOrd, Ord)]
pub enum Kind {
    Timer,
    EventSource,
    PolledUnknown,
    Polled(i32),
}

impl Kind {
    pub fn rr(self) -> ros2::rr::CallbackType {
        match self {
            Kind::Timer => ros2::rr::CallbackType::Timer,
            Kind::EventSource => ros2::rr::CallbackType::EventSource,
            Kind::PolledUnknown => ros2::rr::CallbackType::PolledUnknownPrio,
            Kind::Polled(p) => ros2::rr::CallbackType::Polled(p),
        }
    }
    pub fn is_pp(self) -> bool {
        matches!(self, Kind::PolledUnknown | Kind::Polled(_))
    }
}

#[derive(Clone, Debug, Serialize, Deserialize, PartialEq, Eq, Hash)]
pub struct CbCase {
    pub arr: ArrSpec,
    pub cost: CostSpec,
    pub kind: Kind,
    /// assumed response-time bound
    pub assumed: u64,
}

pub type AC = (ArrSpec, CostSpec);

/// One call of one of the six ROS 2 analyses.
#[derive(Clone, Debug, Serialize, Deserialize, PartialEq, Eq, Hash)]
pub enum RosCase {
    EventSource {
        supply: SupplySpec,
        demand: Vec<AC>,
        limit: u64,
    },
    Timer {
        supply: SupplySpec,
        own: AC,
        hp: Vec<AC>,
        blocking: u64,
        limit: u64,
    },
    Pp {
        supply: SupplySpec,
        own: AC,
        others: Vec<AC>,
        limit: u64,
    },
    /// chain of callbacks all triggered (transitively) by `src`; `costs` per chain callback,
    /// the last one is the callback under analysis
    Chain {
        supply: SupplySpec,
        src: ArrSpec,
        costs: Vec<CostSpec>,
        others: Vec<AC>,
        limit: u64,
    },
    /// the same chain analysis, but with the chain prefix and the full chain each modelled as ONE
    /// request bound with the summed WCET (scalar costs only) — the other legitimate way of
    /// describing a chain to `rta_processing_chain`
    ChainSummed {
        supply: SupplySpec,
        src: ArrSpec,
        costs: Vec<u64>,
        others: Vec<AC>,
        limit: u64,
    },
    /// a chain whose callbacks have their OWN arrival curves (e.g. jitter growing along the chain)
    ChainGeneral {
        supply: SupplySpec,
        chain: Vec<AC>,
        others: Vec<AC>,
        limit: u64,
    },
    /// rr (bw = false) or bw (bw = true) subchain analysis
    Sub {
        bw: bool,
        supply: SupplySpec,
        workload: Vec<CbCase>,
        subchain: Vec<usize>,
        limit: u64,
    },
}

fn rbfs_of(v: &[AC]) -> Vec<DynRbf> {
    v.iter().map(|(a, c)| rbf(a, c)).collect()
}

pub fn run_ros(c: &RosCase) -> Outcome {
    let r = match c {
        RosCase::EventSource {
            supply,
            demand,
            limit,
        } => {
            let sup = supply.build();
            let r = rbfs_of(demand);
            ros2::rta_event_source(&sup, &Slice::of(&r), d(*limit))
        }
        RosCase::Timer {
            supply,
            own,
            hp,
            blocking,
            limit,
        } => {
            let sup = supply.build();
            let o = rbf(&own.0, &own.1);
            let h = rbfs_of(hp);
            ros2::rta_timer(&sup, &o, &Slice::of(&h), s(*blocking), d(*limit))
        }
        RosCase::Pp {
            supply,
            own,
            others,
            limit,
        } => {
            let sup = supply.build();
            let o = rbf(&own.0, &own.1);
            let h = rbfs_of(others);
            ros2::rta_polling_point_callback(&sup, &o, &Aggregate::new(h), d(*limit))
        }
        RosCase::Chain {
            supply,
            src,
            costs,
            others,
            limit,
        } => {
            let sup = supply.build();
            let all: Vec<DynRbf> = costs.iter().map(|c| rbf(src, c)).collect();
            let last = all.last().unwrap();
            let prefix = Slice::of(&all[..all.len() - 1]);
            let full = Slice::of(&all[..]);
            let o = rbfs_of(others);
            ros2::rta_processing_chain(&sup, last, &prefix, &full, &Slice::of(&o), d(*limit))
        }
        RosCase::ChainGeneral {
            supply,
            chain,
            others,
            limit,
        } => {
            let sup = supply.build();
            let all = rbfs_of(chain);
            let last = all.last().unwrap();
            let prefix = Slice::of(&all[..all.len() - 1]);
            let full = Slice::of(&all[..]);
            let o = rbfs_of(others);
            ros2::rta_processing_chain(&sup, last, &prefix, &full, &Slice::of(&o), d(*limit))
        }
        RosCase::ChainSummed {
            supply,
            src,
            costs,
            others,
            limit,
        } => {
            let sup = supply.build();
            let last = rbf(src, &CostSpec::Scalar(*costs.last().unwrap()));
            let prefix = rbf(src, &CostSpec::Scalar(costs[..costs.len() - 1].iter().sum()));
            let full = rbf(src, &CostSpec::Scalar(costs.iter().sum()));
            let o = rbfs_of(others);
            ros2::rta_processing_chain(&sup, &last, &prefix, &full, &Slice::of(&o), d(*limit))
        }
        RosCase::Sub {
            bw,
            supply,
            workload,
            subchain,
            limit,
        } => {
            let sup = supply.build();
            let arrs: Vec<DynArr> = workload.iter().map(|w| w.arr.build()).collect();
            let costs: Vec<DynCost> = workload.iter().map(|w| w.cost.build()).collect();
            if *bw {
                let cbs: Vec<_> = workload
                    .iter()
                    .enumerate()
                    .map(|(k, w)| {
                        ros2::bw::Callback::new(d(w.assumed), &arrs[k], &costs[k], w.kind.rr())
                    })
                    .collect();
                let sc: Vec<_> = subchain.iter().map(|k| &cbs[*k]).collect();
                ros2::bw::rta_subchain(&sup, &cbs[..], &sc[..], d(*limit))
            } else {
                let cbs: Vec<_> = workload
                    .iter()
                    .enumerate()
                    .map(|(k, w)| {
                        ros2::rr::Callback::new(d(w.assumed), &arrs[k], &costs[k], w.kind.rr())
                    })
                    .collect();
                let sc: Vec<_> = subchain.iter().map(|k| &cbs[*k]).collect();
                ros2::rr::rta_subchain(&sup, &cbs[..], &sc[..], d(*limit))
            }
        }
    };
    outcome(r)
}

/// service_needed of a task as a plain function (black-box use of the real objects)
pub fn sn(r: &dyn RequestBound, delta: u64) -> u64 {
    su(r.service_needed(d(delta)))
}
