//! Finite, time-unbounded automata of the *documented* event processes (trusted base, DESIGN §4.2)
//! and of the reservation contract (§4.5).  Written from the process definitions, never from
//! `number_arrivals` — C10 is exactly the statement that the library's curves bound them.

use crate::spec::ArrSpec;
use std::collections::{HashMap, HashSet};

pub type AState = Vec<i16>;

/// Arrival automaton.  One *instant* = choose one of `instant_choices` (number of releases and the
/// state after them), then `tick`.
#[derive(Clone, Debug)]
pub enum Aut {
    Never,
    /// strictly periodic, unknown phase: state [c], c = ticks until the next release
    Periodic { t: i16 },
    /// sporadic + release jitter: state [x], x = (a_last + T) - now, clipped at -J
    Sporadic { t: i16, j: i16 },
    /// delta-min prefix: state = ages of the last releases (most recent first), each < L = d.last()
    Dmin { d: Vec<i16> },
    /// inner arrivals delayed by at most j: state = [inner_len, inner..., budgets sorted desc...]
    Jitter { inner: Box<Aut>, j: i16 },
    /// superposition
    Product(Vec<Aut>),
}

/// Cap on simultaneous releases enumerated per instant (bursts larger than this are not
/// explored; hitting it is reported by the callers through `burst_cap_hit`).
pub const BURST_CAP: usize = 8;

impl Aut {
    /// Automaton of the process an `ArrSpec` documents.  `None` if the spec has no process
    /// semantics of its own (derived curves are checked against their *source's* automaton).
    pub fn of(spec: &ArrSpec) -> Option<Aut> {
        Some(match spec {
            ArrSpec::Never => Aut::Never,
            ArrSpec::Periodic { t } => Aut::Periodic { t: *t as i16 },
            ArrSpec::SporadicFromPeriodic { t } => Aut::Sporadic { t: *t as i16, j: 0 },
            ArrSpec::Sporadic { t, j } => Aut::Sporadic {
                t: *t as i16,
                j: *j as i16,
            },
            ArrSpec::CurveCollected { dmin } => {
                // FromIterator documents "ensure the min-distance function is monotonic": the
                // process is the one of the monotone closure of the given vector
                let mut d: Vec<i16> = dmin.iter().map(|x| *x as i16).collect();
                for i in 1..d.len() {
                    d[i] = d[i].max(d[i - 1]);
                }
                if *d.last()? == 0 {
                    return None;
                }
                Aut::Dmin { d }
            }
            ArrSpec::Curve { dmin } | ArrSpec::ExtCurve { dmin } => {
                if *dmin.last()? == 0 {
                    return None;
                }
                Aut::Dmin {
                    d: dmin.iter().map(|x| *x as i16).collect(),
                }
            }
            ArrSpec::Prefix { horizon, steps } => {
                // n events need a window of length >= (first delta with eta >= n); more than
                // eta(horizon) events need a window longer than the horizon.
                let maxn = steps.last().map(|x| x.1).unwrap_or(0);
                if maxn == 0 {
                    return Some(Aut::Never);
                }
                let mut d = vec![];
                for n in 2..=maxn {
                    let delta = steps.iter().find(|(_, k)| *k >= n).unwrap().0;
                    d.push(delta as i16 - 1);
                }
                d.push(*horizon as i16);
                Aut::Dmin { d }
            }
            ArrSpec::Jitter { inner, j } | ArrSpec::Propagated { inner, j } => {
                // jitter on top of Periodic = sporadic with jitter (library: clone_with_jitter
                // of Periodic yields Sporadic); on Sporadic it adds up.
                // Delaying each arrival of a sporadic process with jitter j0 by at most j more is
                // the sporadic process with jitter j0 + j (single counter, exact); the generic
                // token construction is used for everything else and is cross-checked against
                // this collapse in C10's self-validation.
                match (&**inner, spec) {
                    (ArrSpec::Periodic { t }, _) | (ArrSpec::SporadicFromPeriodic { t }, _) => {
                        Aut::Sporadic {
                            t: *t as i16,
                            j: *j as i16,
                        }
                    }
                    (ArrSpec::Sporadic { t, j: j0 }, _) => Aut::Sporadic {
                        t: *t as i16,
                        j: (*j0 + *j) as i16,
                    },
                    _ => Aut::Jitter {
                        inner: Box::new(Aut::of(inner)?),
                        j: *j as i16,
                    },
                }
            }
            ArrSpec::Sum(v) | ArrSpec::Slice(v) => {
                Aut::Product(v.iter().map(Aut::of).collect::<Option<Vec<_>>>()?)
            }
            ArrSpec::SumOf(a, b) => Aut::Product(vec![Aut::of(a)?, Aut::of(b)?]),
            _ => return None,
        })
    }

    pub fn inits(&self) -> Vec<AState> {
        match self {
            Aut::Never => vec![vec![]],
            Aut::Periodic { t } => (0..*t).map(|c| vec![c]).collect(),
            Aut::Sporadic { j, .. } => vec![vec![-*j]],
            Aut::Dmin { .. } => vec![vec![]],
            Aut::Jitter { inner, .. } => inner
                .inits()
                .into_iter()
                .map(|i| {
                    let mut v = vec![i.len() as i16];
                    v.extend(i);
                    v
                })
                .collect(),
            Aut::Product(parts) => {
                let mut acc: Vec<AState> = vec![vec![]];
                for p in parts {
                    let mut nx = vec![];
                    for a in &acc {
                        for i in p.inits() {
                            let mut v = a.clone();
                            v.push(i.len() as i16);
                            v.extend(i);
                            nx.push(v);
                        }
                    }
                    acc = nx;
                }
                acc
            }
        }
    }

    /// All distinct (state after the instant's releases, number of releases) pairs.
    /// `burst_cap_hit` is set when the enumeration was cut by BURST_CAP.
    pub fn instant_choices(&self, st: &AState, out: &mut Vec<(AState, u8)>, cap_hit: &mut bool) {
        match self {
            Aut::Never => out.push((st.clone(), 0)),
            Aut::Periodic { t } => {
                if st[0] == 0 {
                    out.push((vec![*t], 1));
                } else {
                    out.push((st.clone(), 0));
                }
            }
            Aut::Sporadic { t, j } => {
                let mut x = st[0];
                let mut k = 0u8;
                out.push((vec![x], 0));
                while x <= 0 {
                    if k as usize >= BURST_CAP {
                        *cap_hit = true;
                        break;
                    }
                    x = x.max(-*j) + *t;
                    k += 1;
                    out.push((vec![x], k));
                }
            }
            Aut::Dmin { d } => {
                let mut cur = st.clone();
                let mut k = 0u8;
                out.push((cur.clone(), 0));
                loop {
                    let ok = cur
                        .iter()
                        .enumerate()
                        .all(|(idx, age)| idx >= d.len() || *age >= d[idx]);
                    if !ok {
                        break;
                    }
                    if k as usize >= BURST_CAP {
                        *cap_hit = true;
                        break;
                    }
                    cur.insert(0, 0);
                    cur.truncate(d.len());
                    k += 1;
                    out.push((cur.clone(), k));
                }
            }
            Aut::Jitter { inner, j } => {
                let il = st[0] as usize;
                let ist: AState = st[1..1 + il].to_vec();
                let budgets: Vec<i16> = st[1 + il..].to_vec();
                let mut inner_choices = vec![];
                inner.instant_choices(&ist, &mut inner_choices, cap_hit);
                let mut seen: HashSet<(AState, u8)> = HashSet::new();
                for (ist2, k) in inner_choices {
                    // new tokens with full budget
                    let mut toks = budgets.clone();
                    for _ in 0..k {
                        toks.push(*j);
                    }
                    toks.sort_by(|a, b| b.cmp(a));
                    // deliver any sub-multiset; tokens with budget 0 must be delivered
                    // distinct budget values with multiplicities
                    let mut vals: Vec<(i16, usize)> = vec![];
                    for b in &toks {
                        if let Some(l) = vals.last_mut() {
                            if l.0 == *b {
                                l.1 += 1;
                                continue;
                            }
                        }
                        vals.push((*b, 1));
                    }
                    // enumerate how many of each value are delivered
                    let mut partial: Vec<(Vec<i16>, u8)> = vec![(vec![], 0)];
                    for (b, m) in vals {
                        let mut nx = vec![];
                        for (kept, del) in &partial {
                            let lo = if b == 0 { m } else { 0 };
                            for deliver in lo..=m {
                                let mut kk = kept.clone();
                                for _ in 0..(m - deliver) {
                                    kk.push(b);
                                }
                                nx.push((kk, del + deliver as u8));
                            }
                        }
                        partial = nx;
                    }
                    for (kept, del) in partial {
                        let mut v = vec![ist2.len() as i16];
                        v.extend(ist2.iter().copied());
                        v.extend(kept);
                        if seen.insert((v.clone(), del)) {
                            out.push((v, del));
                        }
                    }
                }
            }
            Aut::Product(parts) => {
                let mut acc: Vec<(AState, u8)> = vec![(vec![], 0)];
                let mut pos = 0usize;
                for p in parts {
                    let l = st[pos] as usize;
                    let sub: AState = st[pos + 1..pos + 1 + l].to_vec();
                    pos += 1 + l;
                    let mut ch = vec![];
                    p.instant_choices(&sub, &mut ch, cap_hit);
                    let mut nx = vec![];
                    for (a, k) in &acc {
                        for (c, k2) in &ch {
                            let mut v = a.clone();
                            v.push(c.len() as i16);
                            v.extend(c.iter().copied());
                            nx.push((v, k + k2));
                        }
                    }
                    acc = nx;
                }
                out.extend(acc);
            }
        }
    }

    pub fn tick(&self, st: &mut AState) {
        match self {
            Aut::Never => {}
            Aut::Periodic { .. } => st[0] -= 1,
            Aut::Sporadic { j, .. } => st[0] = (st[0] - 1).max(-*j),
            Aut::Dmin { d } => {
                let l = *d.last().unwrap();
                for x in st.iter_mut() {
                    *x = (*x + 1).min(l);
                }
                while let Some(x) = st.last() {
                    if *x >= l {
                        st.pop();
                    } else {
                        break;
                    }
                }
            }
            Aut::Jitter { inner, .. } => {
                let il = st[0] as usize;
                let mut ist: AState = st[1..1 + il].to_vec();
                inner.tick(&mut ist);
                let budgets: Vec<i16> = st[1 + il..].iter().map(|b| b - 1).collect();
                debug_assert!(budgets.iter().all(|b| *b >= 0));
                let mut v = vec![ist.len() as i16];
                v.extend(ist);
                v.extend(budgets);
                *st = v;
            }
            Aut::Product(parts) => {
                let mut v = vec![];
                let mut pos = 0usize;
                for p in parts {
                    let l = st[pos] as usize;
                    let mut sub: AState = st[pos + 1..pos + 1 + l].to_vec();
                    pos += 1 + l;
                    p.tick(&mut sub);
                    v.push(sub.len() as i16);
                    v.extend(sub);
                }
                *st = v;
            }
        }
    }

    /// Explicit state graph: reachable states and, per state, successors (next state, releases).
    pub fn graph(&self) -> (Vec<AState>, Vec<Vec<(usize, u8)>>, bool) {
        let mut idx: HashMap<AState, usize> = HashMap::new();
        let mut states: Vec<AState> = vec![];
        let mut edges: Vec<Vec<(usize, u8)>> = vec![];
        let mut cap_hit = false;
        let mut stack = vec![];
        for i in self.inits() {
            if !idx.contains_key(&i) {
                idx.insert(i.clone(), states.len());
                states.push(i.clone());
                edges.push(vec![]);
                stack.push(states.len() - 1);
            }
        }
        let mut ch = vec![];
        while let Some(si) = stack.pop() {
            ch.clear();
            let st = states[si].clone();
            self.instant_choices(&st, &mut ch, &mut cap_hit);
            let mut es = vec![];
            for (mut n, k) in ch.drain(..) {
                self.tick(&mut n);
                let ni = match idx.get(&n) {
                    Some(i) => *i,
                    None => {
                        idx.insert(n.clone(), states.len());
                        states.push(n);
                        edges.push(vec![]);
                        stack.push(states.len() - 1);
                        states.len() - 1
                    }
                };
                es.push((ni, k));
            }
            edges[si] = es;
        }
        (states, edges, cap_hit)
    }

    /// max_events[delta] = the largest number of releases in any window of `delta` consecutive
    /// instants on any path from any reachable state (DP over the explicit state graph).
    /// Returns (max_events, states, transitions, burst_cap_hit).
    pub fn max_events(&self, h: usize) -> (Vec<u64>, usize, usize, bool) {
        let (states, edges, cap_hit) = self.graph();
        let n = states.len();
        let mut prev = vec![0u64; n];
        let mut res = vec![0u64; h + 1];
        for len in 1..=h {
            let mut cur = vec![0u64; n];
            for i in 0..n {
                cur[i] = edges[i]
                    .iter()
                    .map(|(nx, k)| prev[*nx] + *k as u64)
                    .max()
                    .unwrap_or(0);
            }
            res[len] = *cur.iter().max().unwrap();
            prev = cur;
        }
        let tr = edges.iter().map(|e| e.len()).sum();
        (res, n, tr, cap_hit)
    }

    /// Does the automaton accept the release vector `rel` (rel[t] = releases at instant t) from
    /// some initial state?  (Used to validate the automaton against the literal definition.)
    pub fn accepts(&self, rel: &[u8]) -> bool {
        let mut cur: HashSet<AState> = self.inits().into_iter().collect();
        let mut dummy = false;
        for r in rel {
            let mut nx = HashSet::new();
            for st in &cur {
                let mut ch = vec![];
                self.instant_choices(st, &mut ch, &mut dummy);
                for (mut n, k) in ch {
                    if k == *r {
                        self.tick(&mut n);
                        nx.insert(n);
                    }
                }
            }
            if nx.is_empty() {
                return false;
            }
            cur = nx;
        }
        true
    }
}

/// Literal definitions of the processes (for automaton self-validation).
pub mod literal {
    /// release times from a release vector
    pub fn times(rel: &[u8]) -> Vec<i64> {
        let mut v = vec![];
        for (t, k) in rel.iter().enumerate() {
            for _ in 0..*k {
                v.push(t as i64);
            }
        }
        v
    }
    /// sporadic with jitter: r_j - r_i >= (j-i)T - J for all i<j
    pub fn sporadic(rel: &[u8], t: i64, j: i64) -> bool {
        let r = times(rel);
        for a in 0..r.len() {
            for b in a + 1..r.len() {
                if r[b] - r[a] < (b - a) as i64 * t - j {
                    return false;
                }
            }
        }
        true
    }
    /// delta-min prefix: r_j - r_i >= d[j-i-1] for j-i <= len
    pub fn dmin(rel: &[u8], d: &[i64]) -> bool {
        let r = times(rel);
        for a in 0..r.len() {
            for b in a + 1..r.len() {
                if b - a <= d.len() && r[b] - r[a] < d[b - a - 1] {
                    return false;
                }
            }
        }
        true
    }
    /// strictly periodic with some phase; the observation window may start anywhere
    pub fn periodic(rel: &[u8], t: i64) -> bool {
        (0..t).any(|ph| {
            rel.iter()
                .enumerate()
                .all(|(i, k)| (*k as i64) == if (i as i64) % t == ph { 1 } else { 0 })
        })
    }
    /// jittered: exists an assignment of arrival times a_k in [r_k - J, r_k] (order-preserving
    /// w.l.o.g.) such that `inner_ok` accepts the arrival sequence.  Brute force over all
    /// delay vectors; arrivals before the observation window are allowed (negative times are
    /// shifted), so the caller passes a predicate on time lists.
    pub fn jittered(rel: &[u8], j: i64, inner_ok: &dyn Fn(&[i64]) -> bool) -> bool {
        let r = times(rel);
        fn rec(
            r: &[i64],
            k: usize,
            j: i64,
            acc: &mut Vec<i64>,
            inner_ok: &dyn Fn(&[i64]) -> bool,
        ) -> bool {
            if k == r.len() {
                let mut a = acc.clone();
                a.sort();
                return inner_ok(&a);
            }
            for delay in 0..=j {
                acc.push(r[k] - delay);
                if rec(r, k + 1, j, acc, inner_ok) {
                    acc.pop();
                    return true;
                }
                acc.pop();
            }
            false
        }
        rec(&r, 0, j, &mut vec![], inner_ok)
    }
    pub fn sporadic_times(r: &[i64], t: i64, j: i64) -> bool {
        for a in 0..r.len() {
            for b in a + 1..r.len() {
                if r[b] - r[a] < (b - a) as i64 * t - j {
                    return false;
                }
            }
        }
        true
    }
    pub fn dmin_times(r: &[i64], d: &[i64]) -> bool {
        for a in 0..r.len() {
            for b in a + 1..r.len() {
                if b - a <= d.len() && r[b] - r[a] < d[b - a - 1] {
                    return false;
                }
            }
        }
        true
    }
}

/// Reservation automaton (DESIGN §4.5): state (phase, left).
#[derive(Clone, Copy, Debug)]
pub struct Reservation {
    pub q: u8,
    pub dl: u8,
    pub p: u8,
}

impl Reservation {
    pub fn dedicated(&self) -> bool {
        self.q == self.p
    }
    /// all consistent (phase, left) pairs: consumed so far <= phase, rest still fits before D
    pub fn inits(&self) -> Vec<(u8, u8)> {
        let mut v = vec![];
        for ph in 0..self.p {
            for left in 0..=self.q {
                let consumed = self.q - left;
                if consumed <= ph && (left == 0 || left <= self.dl.saturating_sub(ph)) {
                    v.push((ph, left));
                }
            }
        }
        v
    }
    pub fn can_supply(&self, st: (u8, u8)) -> bool {
        st.1 > 0
    }
    pub fn can_withhold(&self, st: (u8, u8)) -> bool {
        // the remaining budget must still fit before the deadline after this tick
        st.1 <= self.dl.saturating_sub(st.0 + 1)
    }
    pub fn step(&self, st: (u8, u8), supply: bool) -> (u8, u8) {
        let left = if supply { st.1 - 1 } else { st.1 };
        if st.0 + 1 == self.p {
            (0, self.q)
        } else {
            (st.0 + 1, left)
        }
    }
    /// sbf_model[delta] = min service over all start states and all paths of length delta.
    /// Returns (sbf, states, transitions).
    pub fn sbf(&self, h: usize) -> (Vec<u64>, usize, usize) {
        let states = self.inits();
        let idx: HashMap<(u8, u8), usize> =
            states.iter().enumerate().map(|(i, s)| (*s, i)).collect();
        let mut prev = vec![0u64; states.len()];
        let mut res = vec![0u64; h + 1];
        let mut tr = 0;
        for len in 1..=h {
            let mut cur = vec![u64::MAX; states.len()];
            for (i, st) in states.iter().enumerate() {
                for sup in [false, true] {
                    let ok = if sup {
                        self.can_supply(*st)
                    } else {
                        self.can_withhold(*st)
                    };
                    if ok {
                        let n = self.step(*st, sup);
                        let j = *idx
                            .get(&n)
                            .unwrap_or_else(|| panic!("reservation automaton leaves its state set"));
                        cur[i] = cur[i].min(prev[j] + sup as u64);
                        if len == 1 {
                            tr += 1;
                        }
                    }
                }
            }
            res[len] = *cur.iter().min().unwrap();
            prev = cur;
        }
        (res, states.len(), tr)
    }
}
