//! Explicit-state explorer (DESIGN §5): DFS to a fixpoint with a visited set, BFS with parent
//! pointers for shortest traces, and a stateright adapter for cross-checking.

use serde::{Deserialize, Serialize};
use std::collections::{HashMap, HashSet, VecDeque};
use std::fmt::Debug;
use std::hash::Hash;

pub const MAXT: usize = 6;

#[derive(Clone, Copy, Debug, Serialize, Deserialize, PartialEq, Eq, Hash)]
pub enum End {
    /// nothing executed in this tick
    Idle,
    /// the run continues into the next tick (no preemption point)
    Continue,
    /// the run ends at a preemption point, the job is not finished
    EndRun,
    /// the job completes at the end of this tick
    Complete,
}

/// One tick of a trace: everything the independent trace checker needs.
#[derive(Clone, Copy, Debug, Serialize, Deserialize, PartialEq, Eq, Hash)]
pub struct Tick {
    /// external releases per task / callback at this instant
    pub rel: [u8; MAXT],
    /// did the reservation supply this tick (always true on a dedicated processor)
    pub supplied: bool,
    /// who executed
    pub ran: Option<u8>,
    /// segment index claimed by the run (fixed segment layouts)
    pub seg: u8,
    pub end: End,
    /// response time of the completing job (0 if none)
    pub resp: u16,
}

#[derive(Default, Debug, Clone)]
pub struct Caps {
    /// successors pruned because a checked / interfering task reached its pending cap
    pub hep: u64,
    /// successors pruned because a lower-priority (blocking-only) task reached its cap
    pub lp: u64,
    /// burst enumeration cut
    pub burst: bool,
}

pub trait Sys: Sync {
    type S: Clone + Hash + Eq + Debug + Send + Sync;
    fn inits(&self) -> Vec<Self::S>;
    fn succ(&self, s: &Self::S, out: &mut Vec<(Self::S, Tick)>, caps: &mut Caps);
    fn ntasks(&self) -> usize;
    fn bound(&self, task: usize) -> Option<u16>;
    /// age (ticks since release) of the oldest pending job of `task`
    fn oldest_age(&self, s: &Self::S, task: usize) -> Option<u16>;
}

pub const AGE_CAP: u16 = 400;

#[derive(Default, Debug, Clone)]
pub struct Stats {
    pub states: usize,
    pub transitions: usize,
    pub max_resp: Vec<u16>,
    /// did the task ever execute in a reachable transition?
    pub ran: Vec<bool>,
    pub violation: Option<(usize, u16)>,
    pub truncated: bool,
    pub caps: Caps,
}

impl Stats {
    /// the search covered the whole reachable space of the model (no cap was met)
    pub fn complete(&self) -> bool {
        !self.truncated && self.caps.hep == 0 && !self.caps.burst
    }
}

pub fn violates<T: Sys>(sys: &T, s: &T::S) -> Option<(usize, u16)> {
    for i in 0..sys.ntasks() {
        if let (Some(b), Some(a)) = (sys.bound(i), sys.oldest_age(s, i)) {
            if a >= b {
                return Some((i, a));
            }
        }
    }
    None
}

fn too_old<T: Sys>(sys: &T, s: &T::S) -> bool {
    (0..sys.ntasks()).any(|i| sys.oldest_age(s, i).map(|a| a > AGE_CAP).unwrap_or(false))
}

/// Depth-first exploration to a fixpoint.  Stops at the first invariant violation.
pub fn explore<T: Sys>(sys: &T, max_states: usize) -> Stats {
    let mut st = Stats {
        max_resp: vec![0; sys.ntasks()],
        ran: vec![false; sys.ntasks()],
        ..Default::default()
    };
    let mut seen: HashSet<T::S> = HashSet::new();
    let mut stack: Vec<T::S> = vec![];
    for i in sys.inits() {
        if seen.insert(i.clone()) {
            stack.push(i);
        }
    }
    let mut out: Vec<(T::S, Tick)> = vec![];
    // slack of a state = min over checked tasks of (bound - oldest pending age); successors are
    // pushed in order of decreasing slack, so the depth-first search follows the most aged job
    // first and reaches a violation (if there is one) without first flooding the visited set.
    // The order has no influence on which states are visited in a violation-free system.
    let slack = |s: &T::S| -> i64 {
        (0..sys.ntasks())
            .filter_map(|i| match (sys.bound(i), sys.oldest_age(s, i)) {
                (Some(b), Some(a)) => Some(b as i64 - a as i64),
                _ => None,
            })
            .min()
            .unwrap_or(i64::MAX)
    };
    while let Some(s) = stack.pop() {
        out.clear();
        sys.succ(&s, &mut out, &mut st.caps);
        if out.len() > 1 {
            out.sort_by_cached_key(|(n, _)| std::cmp::Reverse(slack(n)));
        }
        for (n, l) in out.drain(..) {
            st.transitions += 1;
            if let Some(t) = l.ran {
                st.ran[t as usize] = true;
            }
            if l.end == End::Complete {
                if let Some(t) = l.ran {
                    let t = t as usize;
                    if l.resp > st.max_resp[t] {
                        st.max_resp[t] = l.resp;
                    }
                    // a completion later than the bound (the state invariant alone would miss
                    // a bound of 0, where the job is never pending at a tick boundary)
                    if let Some(b) = sys.bound(t) {
                        if l.resp > b {
                            st.violation = Some((t, l.resp));
                            st.states = seen.len();
                            return st;
                        }
                    }
                }
            }
            if let Some(v) = violates(sys, &n) {
                st.violation = Some(v);
                st.states = seen.len();
                return st;
            }
            if !seen.contains(&n) {
                if seen.len() >= max_states || too_old(sys, &n) {
                    st.truncated = true;
                    st.states = seen.len();
                    return st;
                }
                seen.insert(n.clone());
                stack.push(n);
            }
        }
    }
    st.states = seen.len();
    st
}

#[derive(Clone, Copy, Debug)]
pub enum Goal {
    /// first state violating the age invariant
    Violation,
    /// a completion of `task` with response time `resp`
    Resp { task: usize, resp: u16 },
}

/// Shortest trace (initial state + ticks) to the goal by breadth-first search with parent
/// pointers; if the breadth-first frontier outgrows the budget before the goal is reached (deep
/// goals in systems with wide branching, e.g. an optimistic bound for an overloaded system), fall
/// back to depth-first order, which reaches the goal as quickly as the exploration did — the trace
/// is then valid but not shortest.
pub fn find_trace<T: Sys>(sys: &T, goal: Goal, max_states: usize) -> Option<(T::S, Vec<Tick>)> {
    find_trace_order(sys, goal, max_states.min(300_000), true)
        .or_else(|| find_trace_order(sys, goal, max_states, false))
}

fn find_trace_order<T: Sys>(
    sys: &T,
    goal: Goal,
    max_states: usize,
    breadth_first: bool,
) -> Option<(T::S, Vec<Tick>)> {
    let mut idx: HashMap<T::S, usize> = HashMap::new();
    let mut nodes: Vec<(T::S, usize, Option<Tick>)> = vec![];
    let mut q: VecDeque<usize> = VecDeque::new();
    for i in sys.inits() {
        if !idx.contains_key(&i) {
            idx.insert(i.clone(), nodes.len());
            nodes.push((i, usize::MAX, None));
            q.push_back(nodes.len() - 1);
        }
    }
    let mut caps = Caps::default();
    let mut out = vec![];
    let rebuild = |nodes: &Vec<(T::S, usize, Option<Tick>)>, mut at: usize, last: Tick| {
        let mut ticks = vec![last];
        while let Some(t) = nodes[at].2 {
            ticks.push(t);
            at = nodes[at].1;
        }
        ticks.reverse();
        (nodes[at].0.clone(), ticks)
    };
    while let Some(si) = if breadth_first { q.pop_front() } else { q.pop_back() } {
        out.clear();
        let s = nodes[si].0.clone();
        sys.succ(&s, &mut out, &mut caps);
        if !breadth_first && out.len() > 1 {
            // same heuristic as `explore`: follow the most aged job first
            let slack = |s: &T::S| -> i64 {
                (0..sys.ntasks())
                    .filter_map(|i| match (sys.bound(i), sys.oldest_age(s, i)) {
                        (Some(b), Some(a)) => Some(b as i64 - a as i64),
                        _ => None,
                    })
                    .min()
                    .unwrap_or(i64::MAX)
            };
            out.sort_by_cached_key(|(n, _)| std::cmp::Reverse(slack(n)));
        }
        for (n, l) in out.drain(..) {
            let hit = match goal {
                Goal::Violation => {
                    violates(sys, &n).is_some()
                        || (l.end == End::Complete
                            && l.ran
                                .and_then(|t| sys.bound(t as usize))
                                .map(|b| l.resp > b)
                                .unwrap_or(false))
                }
                Goal::Resp { task, resp } => {
                    l.end == End::Complete && l.ran == Some(task as u8) && l.resp == resp
                }
            };
            if hit {
                return Some(rebuild(&nodes, si, l));
            }
            if !idx.contains_key(&n) {
                if nodes.len() >= max_states {
                    return None;
                }
                idx.insert(n.clone(), nodes.len());
                nodes.push((n, si, Some(l)));
                q.push_back(nodes.len() - 1);
            }
        }
    }
    None
}

/// Cross-check against stateright: same successor function wrapped as a `stateright::Model`
/// (action = index of the successor).  Returns (unique states, violation found).
pub fn stateright_check<T: Sys + Send + 'static>(sys: std::sync::Arc<T>) -> (usize, bool) {
    use stateright::{Checker, Model, Property};
    struct M<T: Sys>(std::sync::Arc<T>);
    impl<T: Sys> Model for M<T> {
        type State = T::S;
        type Action = usize;
        fn init_states(&self) -> Vec<Self::State> {
            let mut seen = HashSet::new();
            self.0
                .inits()
                .into_iter()
                .filter(|s| seen.insert(s.clone()))
                .collect()
        }
        fn actions(&self, s: &Self::State, actions: &mut Vec<Self::Action>) {
            let mut out = vec![];
            self.0.succ(s, &mut out, &mut Caps::default());
            actions.extend(0..out.len());
        }
        fn next_state(&self, s: &Self::State, a: Self::Action) -> Option<Self::State> {
            let mut out = vec![];
            self.0.succ(s, &mut out, &mut Caps::default());
            out.into_iter().nth(a).map(|x| x.0)
        }
        fn properties(&self) -> Vec<Property<Self>> {
            vec![Property::always("age below bound", |m: &M<T>, s: &T::S| {
                violates(&*m.0, s).is_none()
            })]
        }
    }
    let checker = M(sys).checker().threads(1).spawn_bfs().join();
    let viol = checker.discovery("age below bound").is_some();
    (checker.unique_state_count(), viol)
}
