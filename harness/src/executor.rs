//! Explicit-state model of the ROS 2 single-threaded executor on a reservation (DESIGN §4.6/§4.5).
//! Trusted base: a specification of the system C04/C05 describe, not an abstraction of library code.

use crate::automata::{AState, Aut, Reservation};
use crate::engine::{Caps, End, Sys, Tick, MAXT};
use crate::spec::{ArrSpec, SupplySpec};
use serde::{Deserialize, Serialize};

#[derive(Clone, Debug, Serialize, Deserialize, PartialEq, Eq, Hash)]
pub struct CbSpec {
    /// external arrival process (None for callbacks triggered by a predecessor)
    pub arr: Option<ArrSpec>,
    /// index of the chain successor triggered on completion
    pub next: Option<usize>,
    pub timer: bool,
    pub cost: u64,
}

/// Callbacks are listed timers first (priority order), then polled callbacks (priority order).
#[derive(Clone, Debug, Serialize, Deserialize, PartialEq, Eq, Hash)]
pub struct ExecSpec {
    pub cbs: Vec<CbSpec>,
    pub supply: SupplySpec,
    /// serve pending instances in FIFO order instead of the executor policy (event sources)
    pub fifo: bool,
}

#[derive(Clone, Debug, Hash, PartialEq, Eq)]
pub struct St {
    pub x: Vec<AState>,
    /// pending instances per callback: ages since the *source* arrival, oldest first
    pub ages: Vec<Vec<u16>>,
    /// ready set (polled callbacks only)
    pub ready: u8,
    /// running callback and units executed so far
    pub run: Option<(u8, u8)>,
    pub phase: u8,
    pub left: u8,
}

pub struct MCb {
    pub aut: Option<Aut>,
    pub next: Option<usize>,
    pub timer: bool,
    pub cost: u8,
    pub bound: Option<u16>,
}

pub struct Model {
    pub cbs: Vec<MCb>,
    pub res: Reservation,
    pub fifo: bool,
    pub cap: usize,
}

impl Model {
    pub fn new(spec: &ExecSpec, bounds: &[Option<u64>], cap: usize) -> Model {
        assert!(spec.cbs.len() <= MAXT);
        let (q, dl, p) = spec.supply.qdp();
        Model {
            cbs: spec
                .cbs
                .iter()
                .enumerate()
                .map(|(i, c)| MCb {
                    aut: c.arr.as_ref().map(|a| match a {
                        ArrSpec::Periodic { t } => Aut::Sporadic { t: *t as i16, j: 0 },
                        a => Aut::of(a).expect("arrival spec without process semantics"),
                    }),
                    next: c.next,
                    timer: c.timer,
                    cost: c.cost as u8,
                    bound: bounds[i].map(|b| b.min(u16::MAX as u64) as u16),
                })
                .collect(),
            res: Reservation {
                q: q as u8,
                dl: dl as u8,
                p: p as u8,
            },
            fifo: spec.fifo,
            cap,
        }
    }

    fn adv(&self, n: &mut St) {
        for i in 0..self.cbs.len() {
            if let Some(a) = &self.cbs[i].aut {
                a.tick(&mut n.x[i]);
            }
            for a in n.ages[i].iter_mut() {
                *a += 1;
            }
        }
        if !self.res.dedicated() {
            // `left` was already decremented by the supply decision
            if n.phase + 1 == self.res.p {
                n.phase = 0;
                n.left = self.res.q;
            } else {
                n.phase += 1;
            }
        }
    }
}

impl Sys for Model {
    type S = St;

    fn inits(&self) -> Vec<St> {
        let phases: Vec<(u8, u8)> = if self.res.dedicated() {
            vec![(0, 0)]
        } else {
            self.res.inits()
        };
        let mut xs: Vec<Vec<AState>> = vec![vec![]];
        for c in &self.cbs {
            let mut nx = vec![];
            let inits = c.aut.as_ref().map(|a| a.inits()).unwrap_or(vec![vec![]]);
            for a in &xs {
                for i in &inits {
                    let mut v = a.clone();
                    v.push(i.clone());
                    nx.push(v);
                }
            }
            xs = nx;
        }
        let mut out = vec![];
        for (ph, left) in phases {
            for x in &xs {
                out.push(St {
                    x: x.clone(),
                    ages: vec![vec![]; self.cbs.len()],
                    ready: 0,
                    run: None,
                    phase: ph,
                    left,
                });
            }
        }
        out
    }

    fn ntasks(&self) -> usize {
        self.cbs.len()
    }
    fn bound(&self, task: usize) -> Option<u16> {
        self.cbs[task].bound
    }
    fn oldest_age(&self, s: &St, task: usize) -> Option<u16> {
        s.ages[task].first().copied()
    }

    fn succ(&self, s0: &St, out: &mut Vec<(St, Tick)>, caps: &mut Caps) {
        // 1. external arrivals at this instant
        let mut cur: Vec<(St, [u8; MAXT])> = vec![(s0.clone(), [0; MAXT])];
        let mut ch = vec![];
        for i in 0..self.cbs.len() {
            let aut = match &self.cbs[i].aut {
                Some(a) => a,
                None => continue,
            };
            let mut next = vec![];
            for (st, rel) in cur {
                ch.clear();
                aut.instant_choices(&st.x[i], &mut ch, &mut caps.burst);
                for (a, k) in ch.drain(..) {
                    if st.ages[i].len() + k as usize > self.cap {
                        caps.hep += 1;
                        continue;
                    }
                    let mut s2 = st.clone();
                    s2.x[i] = a;
                    for _ in 0..k {
                        s2.ages[i].push(0);
                    }
                    let mut r2 = rel;
                    r2[i] = k;
                    next.push((s2, r2));
                }
            }
            cur = next;
        }
        for (s, rel) in cur {
            // 2. supply decision of the reservation
            let mut opts: Vec<bool> = vec![];
            if self.res.dedicated() {
                opts.push(true);
            } else {
                if self.res.can_supply((s.phase, s.left)) {
                    opts.push(true);
                }
                if self.res.can_withhold((s.phase, s.left)) {
                    opts.push(false);
                }
            }
            for sup in opts {
                let mut n = s.clone();
                if !sup {
                    self.adv(&mut n);
                    out.push((
                        n,
                        Tick {
                            rel,
                            supplied: false,
                            ran: None,
                            seg: 0,
                            end: End::Idle,
                            resp: 0,
                        },
                    ));
                    continue;
                }
                if !self.res.dedicated() {
                    n.left -= 1;
                }
                // 3. the executor acts (only in supplied ticks)
                let mut picks: Vec<(u8, St)> = vec![];
                if let Some((c, _)) = n.run {
                    picks.push((c, n.clone()));
                } else if self.fifo {
                    let oldest = (0..self.cbs.len())
                        .filter_map(|i| n.ages[i].first().copied())
                        .max();
                    if let Some(o) = oldest {
                        for i in 0..self.cbs.len() {
                            if n.ages[i].first() == Some(&o) {
                                picks.push((i as u8, n.clone()));
                            }
                        }
                    }
                } else {
                    // timers first, in priority order
                    let mut pick = None;
                    for (i, cb) in self.cbs.iter().enumerate() {
                        if cb.timer && !n.ages[i].is_empty() {
                            pick = Some(i as u8);
                            break;
                        }
                    }
                    let mut m = n.clone();
                    if pick.is_none() {
                        if m.ready == 0 {
                            // polling point: ready set := polled callbacks with a pending instance
                            for (i, cb) in self.cbs.iter().enumerate() {
                                if !cb.timer && !m.ages[i].is_empty() {
                                    m.ready |= 1 << i;
                                }
                            }
                        }
                        if m.ready != 0 {
                            let i = m.ready.trailing_zeros() as u8;
                            m.ready &= !(1 << i);
                            pick = Some(i);
                        }
                    }
                    if let Some(p) = pick {
                        picks.push((p, m));
                    }
                }
                if picks.is_empty() {
                    // supplied but nothing to do: the tick is lost
                    self.adv(&mut n);
                    out.push((
                        n,
                        Tick {
                            rel,
                            supplied: true,
                            ran: None,
                            seg: 0,
                            end: End::Idle,
                            resp: 0,
                        },
                    ));
                    continue;
                }
                for (c, base) in picks {
                    let ci = c as usize;
                    let e = base.run.map(|(_, e)| e).unwrap_or(0) + 1;
                    if e < self.cbs[ci].cost {
                        let mut m = base.clone();
                        m.run = Some((c, e));
                        self.adv(&mut m);
                        out.push((
                            m,
                            Tick {
                                rel,
                                supplied: true,
                                ran: Some(c),
                                seg: 0,
                                end: End::Continue,
                                resp: 0,
                            },
                        ));
                    }
                    let mut m = base.clone();
                    let age = m.ages[ci].remove(0);
                    if let Some(nx) = self.cbs[ci].next {
                        // triggers the chain successor; the instance carries the source's age
                        m.ages[nx].push(age);
                        m.ages[nx].sort_by(|a, b| b.cmp(a));
                    }
                    m.run = None;
                    self.adv(&mut m);
                    out.push((
                        m,
                        Tick {
                            rel,
                            supplied: true,
                            ran: Some(c),
                            seg: 0,
                            end: End::Complete,
                            resp: age + 1,
                        },
                    ));
                }
            }
        }
    }
}
