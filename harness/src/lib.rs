//! rtamc — model-checking harness for response-time-analysis-rs (see /verif/DESIGN.md)
pub mod analysis;
pub mod automata;
pub mod engine;
pub mod executor;
pub mod props;
pub mod refmodel;
pub mod sched;
pub mod spec;
pub mod tracecheck;
pub mod util;
