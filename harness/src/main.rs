use rtamc::props;
use rtamc::util::{machinery_error, Ctx, Tier};

fn main() {
    let args: Vec<String> = std::env::args().collect();
    if args.len() < 2 {
        eprintln!("usage: rtamc <ID> <quick|thorough> | rtamc replay <file>");
        std::process::exit(2);
    }
    if args[1] == "c20-shard" {
        props::c20::shard_main(&args[2..]);
    }
    if args[1] == "c20-one" {
        props::c20::one_main(&args[2]);
    }
    if args[1] == "probe-ros" {
        // explore one executor system given as JSON (RosSys) and print what the model finds
        let sys: props::ros::RosSys = serde_json::from_str(&args[2]).unwrap_or_else(|e| machinery_error(&format!("{e}")));
        let ctx = Ctx::new("C05", Tier::Quick);
        let mut acc = props::uni::Acc::default();
        let mut found = vec![];
        println!("bounds from the real analysis: {:?}", sys.bounds(props::ros::ROS_LIMIT));
        props::ros::check_system(&ctx, &sys, 0, &mut acc, &mut found);
        println!("systems={} states={} complete={} truncated={} tight={}/{}", acc.systems, acc.states, acc.complete, acc.truncated, acc.tight, acc.bounds_checked);
        for f in found {
            println!("FOUND {} :: {}", f.key, f.what);
        }
        std::process::exit(0);
    }
    if args[1] == "replay" {
        let txt = std::fs::read_to_string(&args[2]).unwrap_or_else(|e| machinery_error(&format!("{e}")));
        let v: serde_json::Value = serde_json::from_str(&txt).unwrap_or_else(|e| machinery_error(&format!("{e}")));
        let id = v["property"].as_str().unwrap_or("").to_string();
        let kind = v["kind"].as_str().unwrap_or("").to_string();
        let still = match kind.as_str() {
            "uni-trace" => props::uni::replay(&v["case"]),
            "extcurve-far" => props::uni::replay_far(&v["case"]),
            "exec-trace" => props::ros::replay(&v["case"]),
            "uni-case" => props::c06::replay(&v["case"]),
            "ros-case" => props::c07::replay(&v["case"]),
            "fp-case" | "fp-slow" | "fp-large" => props::c08::replay(&v["case"]),
            "sbf-case" | "sbf-law" => props::c0910::replay_sbf(&v["case"]),
            "sbf-inverse" => props::c0910::replay_sbf_inverse(&v["case"]),
            "arr-case" | "arr-far" => props::c0910::replay_arr(&v["case"]),
            "steps-arr" | "steps-rb" | "steps-arr-far" => props::c11::replay(&kind, &v["case"]),
            "derived" | "derived-far" | "trace" | "dual" => props::c12::replay(&kind, &v["case"]),
            "ext" | "hist" | "ext-long" | "steps-long" => props::c13::replay(&kind, &v["case"], v["key"].as_str().unwrap_or("")),
            "cost" | "cost-trace" | "cost-ext" | "cost-hist" | "cost-iter" | "cost-far" => props::c14::replay(&kind, &v["case"], v["key"].as_str().unwrap_or("")),
            "poisson" | "poisson-pmf" | "poisson-approx" => props::c15::replay(&kind, &v["case"]),
            "rb-compose" | "rb-many" => props::c16::replay(&v["case"]),
            "harden" | "agree" => props::c1719::replay(&kind, &v["case"]),
            "c20-case" => props::c20::replay(&v["case"]),
            _ => machinery_error(&format!("unknown replay kind {kind}")),
        };
        if still {
            println!("VIOLATION property={} replay={}", id, args[2]);
            std::process::exit(1);
        } else {
            println!("replay: property {} holds on this artefact with the current tree", id);
            std::process::exit(0);
        }
    }
    let id = args[1].clone();
    let tier = match args.get(2).map(|s| s.as_str()) {
        Some("thorough") => Tier::Thorough,
        _ => Tier::Quick,
    };
    let mut ctx = Ctx::new(&id, tier);
    // a panic inside the check's own code is a machinery error (exit 2), never a verdict
    let run = std::panic::catch_unwind(std::panic::AssertUnwindSafe(|| match id.as_str() {
        "C01" | "C02" | "C03" | "C18" => props::uni::run(&id, &mut ctx),
        "C04" | "C05" => props::ros::run(&id, &mut ctx),
        "C06" => props::c06::run(&mut ctx),
        "C07" => props::c07::run(&mut ctx),
        "C08" => props::c08::run(&mut ctx),
        "C09" => props::c0910::run_c09(&mut ctx),
        "C10" => props::c0910::run_c10(&mut ctx),
        "C11" => props::c11::run(&mut ctx),
        "C12" => props::c12::run(&mut ctx),
        "C13" => props::c13::run(&mut ctx),
        "C14" => props::c14::run(&mut ctx),
        "C15" => props::c15::run(&mut ctx),
        "C16" => props::c16::run(&mut ctx),
        "C17" => props::c1719::run_c17(&mut ctx),
        "C19" => props::c1719::run_c19(&mut ctx),
        "C20" => props::c20::run(&mut ctx),
        _ => machinery_error(&format!("unknown property {id}")),
    }));
    let (level, cov, assumptions) = match run {
        Ok(x) => x,
        Err(e) => {
            let msg = e.downcast_ref::<String>().cloned().or_else(|| e.downcast_ref::<&str>().map(|s| s.to_string())).unwrap_or_default();
            machinery_error(&format!("the check's own code panicked: {msg}"))
        }
    };
    std::process::exit(ctx.finish(&level, cov, assumptions));
}
