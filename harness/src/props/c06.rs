//! C06: the nine dedicated-processor analyses == naive evaluation of their defining equations.

use crate::analysis::*;
use crate::refmodel::ref_uni;
use crate::spec::*;
use crate::util::{catch, Ctx};
use rayon::prelude::*;
use serde_json::{json, Value};
use std::sync::atomic::{AtomicU64, Ordering};
use std::sync::Mutex;

pub const BIG: u64 = 60;

pub fn arrival_menu(quick: bool) -> Vec<ArrSpec> {
    let mut v = vec![];
    let (tmax, js): (u64, Vec<u64>) = if quick {
        (5, vec![0, 2, 7])
    } else {
        (7, vec![0, 1, 2, 4, 7, 15])
    };
    for t in 1..=tmax {
        for j in &js {
            v.push(ArrSpec::Sporadic { t, j: *j });
        }
    }
    v.push(ArrSpec::Periodic { t: 3 });
    v.push(ArrSpec::Curve { dmin: vec![0, 3] });
    v.push(ArrSpec::Curve {
        dmin: vec![0, 0, 5],
    });
    v.push(ArrSpec::Curve {
        dmin: vec![2, 5, 5, 9],
    });
    v.push(ArrSpec::ExtCurve {
        dmin: vec![1, 3, 6],
    });
    v.push(ArrSpec::Jitter {
        inner: Box::new(ArrSpec::Curve { dmin: vec![3, 6] }),
        j: 2,
    });
    v.push(ArrSpec::Sum(vec![
        ArrSpec::Sporadic { t: 4, j: 1 },
        ArrSpec::Periodic { t: 6 },
    ]));
    // (a never-arriving task is legal as an *interfering* task)
    v.push(ArrSpec::Never);
    v.push(ArrSpec::Prefix {
        horizon: 8,
        steps: vec![(1, 1), (3, 2), (7, 3)],
    });
    v.push(ArrSpec::SumOf(
        Box::new(ArrSpec::Sporadic { t: 5, j: 6 }),
        Box::new(ArrSpec::Periodic { t: 4 }),
    ));
    if !quick {
        v.push(ArrSpec::Curve {
            dmin: vec![1, 2, 12, 15],
        });
        v.push(ArrSpec::ExtCurve { dmin: vec![0, 4] });
        v.push(ArrSpec::Propagated {
            inner: Box::new(ArrSpec::ExtCurve { dmin: vec![2, 5] }),
            j: 3,
        });
        v.push(ArrSpec::CurveFromTrace {
            times: vec![0, 0, 5, 5, 9],
            prefix_jobs: 3,
        });
        v.push(ArrSpec::Prefix {
            horizon: 11,
            steps: vec![(1, 2), (6, 3), (10, 5)],
        });
    }
    v
}

fn task(a: &ArrSpec, c: u64, dl: u64, last: u64, maxnp: u64) -> TaskSpec {
    TaskSpec {
        arr: a.clone(),
        cost: CostSpec::Scalar(c),
        deadline: dl,
        last_seg: last,
        max_seg: maxnp,
    }
}

/// Compare one case (over several limits).  Returns (comparisons, nontrivial, mismatches as
/// (key, what, case)).
pub fn compare(c0: &UniCase) -> (u64, u64, Vec<(String, String, Value)>) {
    compare_with(c0, BIG)
}

/// `big` = the generous divergence limit of the box the case belongs to
pub fn compare_with(c0: &UniCase, big: u64) -> (u64, u64, Vec<(String, String, Value)>) {
    let mut out = vec![];
    let mut n = 0;
    let mut nontrivial = 0;
    let mut base = c0.clone();
    base.limit = big;
    let want_big = match catch(|| ref_uni(&base)) {
        Ok(v) => v,
        Err(e) => {
            out.push((
                "library-call-inside-reference-evaluator#panic".to_string(),
                format!("a black-box call on the library object panicked while the reference evaluator ran: {e}"),
                serde_json::to_value(&base).unwrap(),
            ));
            return (0, 0, out);
        }
    };
    let mut limits = vec![big];
    if let Some(r) = want_big {
        for l in [r.saturating_sub(1), r, r + 1, r + 3, 2 * r + 1] {
            if l <= big && !limits.contains(&l) {
                limits.push(l);
            }
        }
    } else {
        limits.push(7);
        limits.push(13);
    }
    for lim in limits {
        let mut c = c0.clone();
        c.limit = lim;
        let want = if lim == big { want_big } else { ref_uni(&c) };
        let got = catch(|| run_uni(&c));
        n += 1;
        let tua_c = c.tasks[c.tua].cost.wcet();
        if want.map(|w| w > tua_c).unwrap_or(false) {
            nontrivial += 1;
        }
        match got {
            Err(e) => out.push((
                format!("{}#panic", c.ana.name()),
                format!("{} panicked ({e}) on {:?}", c.ana.name(), c),
                serde_json::to_value(&c).unwrap(),
            )),
            Ok(o) => {
                if o.ok() != want {
                    let kind = if o.ok().is_some() != want.is_some() {
                        "err-mismatch"
                    } else {
                        "value-mismatch"
                    };
                    out.push((
                        format!("{}#{}", c.ana.name(), kind),
                        format!(
                            "{}: returned {:?} but naive evaluation of the defining equations gives {:?} on {:?}",
                            c.ana.name(), o, want, c
                        ),
                        serde_json::to_value(&c).unwrap(),
                    ));
                }
            }
        }
    }
    (n, nontrivial, out)
}

pub fn cases(quick: bool) -> Vec<UniCase> {
    let arrs = arrival_menu(quick);
    let cmax = 3u64;
    let mut v = vec![];
    // ---- FP: hep = 1 task (+ a fixed second one in the thorough tier), tua last
    let blockings: Vec<u64> = if quick { vec![0, 2] } else { vec![0, 1, 3] };
    for a0 in &arrs {
        for c0 in 1..=cmax {
            for a1 in &arrs {
                for c1 in 1..=cmax {
                    for bb in &blockings {
                        for ana in [Ana::FpP, Ana::FpNp, Ana::FpLp, Ana::FpFl] {
                            if ana == Ana::FpP && *bb != 0 {
                                continue;
                            }
                            let lasts: Vec<u64> = if ana == Ana::FpLp {
                                (1..=c1).collect()
                            } else {
                                vec![1]
                            };
                            for last in lasts {
                                v.push(UniCase {
                                    ana,
                                    tasks: vec![task(a0, c0, 0, 1, 1), task(a1, c1, 0, last, 1)],
                                    tua: 1,
                                    blocking: *bb,
                                    limit: BIG,
                                });
                            }
                        }
                    }
                }
            }
        }
    }
    // ---- single-task systems (self-interference only), all nine analyses
    for a in &arrs {
        for c in 1..=4u64 {
            for ana in ALL_ANA {
                let lasts: Vec<u64> = if matches!(ana, Ana::FpLp | Ana::EdfLp) { (1..=c).collect() } else { vec![1] };
                for last in lasts {
                    for bb in [0u64, 2] {
                        if bb > 0 && !(ana.is_fp() && ana != Ana::FpP) {
                            continue;
                        }
                        v.push(UniCase { ana, tasks: vec![task(a, c, 5, last, 1)], tua: 0, blocking: bb, limit: BIG });
                    }
                }
            }
        }
    }
    // ---- three tasks: a menu with long enough periods for three tasks to be feasible together
    let mut thin: Vec<ArrSpec> = vec![
        ArrSpec::Sporadic { t: 6, j: 0 },
        ArrSpec::Sporadic { t: 8, j: 3 },
        ArrSpec::Sporadic { t: 12, j: 0 },
        ArrSpec::Sporadic { t: 12, j: 14 },
        ArrSpec::Curve { dmin: vec![0, 10] },
        ArrSpec::ExtCurve {
            dmin: vec![3, 9, 15],
        },
    ];
    if !quick {
        thin.extend(arrs.iter().enumerate().filter(|(i, _)| i % 4 == 0).map(|(_, a)| a.clone()));
    }
    for a0 in &thin {
        for a1 in &thin {
            for a2 in &thin {
                for c in [1u64, 2] {
                    for ana in [Ana::FpP, Ana::FpNp, Ana::FpLp, Ana::FpFl] {
                        v.push(UniCase {
                            ana,
                            tasks: vec![
                                task(a0, 1, 0, 1, 1),
                                task(a1, c, 0, 1, 1),
                                task(a2, 2, 0, 2, 1),
                            ],
                            tua: 2,
                            blocking: if ana == Ana::FpP { 0 } else { 1 },
                            limit: BIG,
                        });
                    }
                }
            }
        }
    }
    // ---- EDF: tua = task 1, other = task 0 (+ three-task cases on the thin menu)
    let dls: Vec<u64> = if quick { vec![1, 4, 9] } else { vec![1, 3, 6, 9, 14] };
    for a0 in &arrs {
        for c0 in 1..=cmax {
            for a1 in &arrs {
                for c1 in 1..=cmax {
                    for d0 in &dls {
                        for d1 in &dls {
                            for ana in [Ana::EdfP, Ana::EdfNp, Ana::EdfLp, Ana::EdfFl] {
                                let nps: Vec<u64> = if matches!(ana, Ana::EdfLp | Ana::EdfFl) && c0 > 1 {
                                    vec![1, c0]
                                } else {
                                    vec![c0]
                                };
                                let lasts: Vec<u64> = if ana == Ana::EdfLp && !quick {
                                    (1..=c1).collect()
                                } else if ana == Ana::EdfLp {
                                    vec![1, c1]
                                } else {
                                    vec![1]
                                };
                                for np in &nps {
                                    for last in &lasts {
                                        v.push(UniCase {
                                            ana,
                                            tasks: vec![
                                                task(a0, c0, *d0, 1, *np),
                                                task(a1, c1, *d1, *last, 1),
                                            ],
                                            tua: 1,
                                            blocking: 0,
                                            limit: BIG,
                                        });
                                    }
                                }
                            }
                        }
                    }
                }
            }
        }
    }
    for a0 in &thin {
        for a1 in &thin {
            for a2 in &thin {
                // (two potential blockers with different segment lengths in both deadline orders)
                for (d0, d1, d2) in [(2u64, 7u64, 4u64), (9, 3, 5), (4, 4, 4), (9, 12, 3), (12, 9, 3)] {
                    for ana in [Ana::EdfP, Ana::EdfNp, Ana::EdfLp, Ana::EdfFl] {
                        v.push(UniCase {
                            ana,
                            tasks: vec![
                                task(a0, 2, d0, 1, 2),
                                task(a1, 1, d1, 1, 1),
                                task(a2, 2, d2, 1, 1),
                            ],
                            tua: 2,
                            blocking: 0,
                            limit: BIG,
                        });
                    }
                }
            }
        }
    }
    // ---- a task that never releases a job listed among three real ones (first / second in the
    // list): anything that filters, zips or indexes the other tasks must stay aligned
    for a0 in &thin {
        for a1 in &thin {
            for a2 in &thin {
                for (d0, d1, d2) in [(5u64, 6u64, 9u64), (9, 3, 5), (4, 12, 7)] {
                    for pos in [0usize, 1] {
                        for ana in ALL_ANA {
                            let mut tasks = vec![task(a0, 3, d0, 1, 3), task(a1, 2, d1, 1, 1), task(a2, 1, d2, 1, 1)];
                            tasks.insert(pos, task(&ArrSpec::Never, 2, 7, 1, 2));
                            v.push(UniCase { ana, tasks, tua: 3, blocking: if ana.is_fp() && ana != Ana::FpP { 1 } else { 0 }, limit: BIG });
                        }
                    }
                }
            }
        }
    }
    // ---- FIFO: two and three tasks
    for a0 in &arrs {
        for c0 in 1..=cmax {
            for a1 in &arrs {
                for c1 in 1..=cmax {
                    v.push(UniCase {
                        ana: Ana::Fifo,
                        tasks: vec![task(a0, c0, 0, 1, 1), task(a1, c1, 0, 1, 1)],
                        tua: 0,
                        blocking: 0,
                        limit: BIG,
                    });
                }
            }
        }
    }
    for a0 in &thin {
        for a1 in &thin {
            for a2 in &thin {
                v.push(UniCase {
                    ana: Ana::Fifo,
                    tasks: vec![task(a0, 1, 0, 1, 1), task(a1, 2, 0, 1, 1), task(a2, 1, 0, 1, 1)],
                    tua: 0,
                    blocking: 0,
                    limit: BIG,
                });
            }
        }
    }
    // ---- non-scalar cost models where the interface admits arbitrary RBFs
    let costs = [
        CostSpec::Multiframe(vec![2, 1]),
        CostSpec::Multiframe(vec![1, 3, 1]),
        CostSpec::Curve(vec![2, 3]),
        CostSpec::ExtCurve(vec![3, 4, 6]),
    ];
    for a0 in &thin {
        for a1 in &thin {
            for k0 in &costs {
                for k1 in &costs {
                    let mk = |ana: Ana, c0: &CostSpec, c1: &CostSpec| UniCase {
                        ana,
                        tasks: vec![
                            TaskSpec { arr: a0.clone(), cost: c0.clone(), deadline: 5, last_seg: 1, max_seg: 1 },
                            TaskSpec { arr: a1.clone(), cost: c1.clone(), deadline: 7, last_seg: 1, max_seg: 1 },
                        ],
                        tua: 1,
                        blocking: 0,
                        limit: BIG,
                    };
                    v.push(mk(Ana::FpP, k0, k1));
                    v.push(mk(Ana::FpFl, k0, k1));
                    v.push(mk(Ana::EdfP, k0, k1));
                    v.push(mk(Ana::EdfFl, k0, k1));
                    v.push(mk(Ana::Fifo, k0, k1));
                    // scalar task under analysis, arbitrary interfering RBF
                    v.push(mk(Ana::FpNp, k0, &CostSpec::Scalar(2)));
                    v.push(mk(Ana::FpLp, k0, &CostSpec::Scalar(2)));
                    v.push(mk(Ana::EdfLp, k0, &CostSpec::Scalar(2)));
                }
            }
        }
    }
    v
}

pub const BIG_LARGE: u64 = 4000;

/// Systems that are not tiny: four tasks, periods / jitters / costs in the tens and hundreds
/// (response times spanning several periods of other tasks, busy windows with many jobs of the
/// analysed task, bursts of three and more).  The comparison costs about a millisecond per case,
/// so the box is enumerated completely as well.
pub fn large_cases(quick: bool) -> Vec<UniCase> {
    let menu: Vec<(u64, u64, u64)> = vec![(10, 0, 2), (15, 25, 3), (20, 0, 5), (50, 120, 7), (7, 0, 1), (100, 0, 12), (30, 30, 1), (12, 40, 2)];
    let mut v = vec![];
    let n = menu.len();
    let nt = if quick { 4 } else { 5 };
    let mk = |idx: &[usize], dl_mode: u8| -> Vec<TaskSpec> {
        idx.iter()
            .map(|k| {
                let (t, j, c) = menu[*k];
                let seg = (c + 1) / 2;
                TaskSpec {
                    arr: ArrSpec::Sporadic { t, j },
                    cost: CostSpec::Scalar(c),
                    deadline: match dl_mode {
                        0 => t,
                        1 => 2 * c + 5,
                        _ => t + j,
                    },
                    last_seg: seg,
                    max_seg: seg,
                }
            })
            .collect()
    };
    for i in 0..n.pow(nt as u32) {
        let idx = crate::props::uni::product_index(i as u64, n, nt);
        for ana in ALL_ANA {
            if ana.is_fp() {
                for tua in [nt - 1, nt - 2] {
                    for bb in [0u64, 4] {
                        if bb > 0 && ana == Ana::FpP {
                            continue;
                        }
                        v.push(UniCase { ana, tasks: mk(&idx, 0), tua, blocking: bb, limit: BIG_LARGE });
                    }
                }
            } else if ana == Ana::Fifo {
                v.push(UniCase { ana, tasks: mk(&idx, 0), tua: 0, blocking: 0, limit: BIG_LARGE });
            } else {
                for dl_mode in [0u8, 1, 2] {
                    for tua in [nt - 1, 0] {
                        v.push(UniCase { ana, tasks: mk(&idx, dl_mode), tua, blocking: 0, limit: BIG_LARGE });
                    }
                }
            }
        }
    }
    v
}

pub const BIG_SAT: u64 = 3000;

/// Near-saturation systems: three jitter-free sporadic tasks with co-prime periods and total
/// utilisation in [0.9, 1]: busy windows of hundreds of ticks that hold dozens of jobs of the
/// analysed task, with the worst job far from the start of the window.
pub fn saturated_cases(quick: bool) -> Vec<UniCase> {
    let periods: Vec<u64> = if quick { vec![2, 3, 5, 7, 11, 19, 31] } else { vec![2, 3, 5, 7, 11, 13, 17, 19, 23, 31, 40] };
    let cmax = if quick { 6 } else { 9 };
    let mut v = vec![];
    let np = periods.len();
    for i in 0..np.pow(3) {
        let idx = crate::props::uni::product_index(i as u64, np, 3);
        let ts: Vec<u64> = idx.iter().map(|k| periods[*k]).collect();
        for c0 in 1..=cmax.min(ts[0]) {
            for c1 in 1..=cmax.min(ts[1]) {
                for c2 in 1..=cmax.min(ts[2]) {
                    let cs = [c0, c1, c2];
                    // utilisation as an exact fraction over the product of the periods
                    let den = ts[0] * ts[1] * ts[2];
                    let num = c0 * ts[1] * ts[2] + c1 * ts[0] * ts[2] + c2 * ts[0] * ts[1];
                    if 10 * num < 9 * den || num > den {
                        continue;
                    }
                    let mk = |dl_eq_t: bool| -> Vec<TaskSpec> {
                        (0..3)
                            .map(|k| TaskSpec {
                                arr: ArrSpec::Sporadic { t: ts[k], j: 0 },
                                cost: CostSpec::Scalar(cs[k]),
                                deadline: if dl_eq_t { ts[k] } else { 2 * ts[k] + 1 },
                                last_seg: (cs[k] + 1) / 2,
                                max_seg: (cs[k] + 1) / 2,
                            })
                            .collect()
                    };
                    for ana in ALL_ANA {
                        if ana.is_fp() {
                            for bb in [0u64, 2] {
                                if bb > 0 && ana == Ana::FpP {
                                    continue;
                                }
                                v.push(UniCase { ana, tasks: mk(true), tua: 2, blocking: bb, limit: BIG_SAT });
                            }
                        } else if ana == Ana::Fifo {
                            v.push(UniCase { ana, tasks: mk(true), tua: 0, blocking: 0, limit: BIG_SAT });
                        } else {
                            for dl in [true, false] {
                                v.push(UniCase { ana, tasks: mk(dl), tua: 2, blocking: 0, limit: BIG_SAT });
                            }
                        }
                    }
                }
            }
        }
    }
    v
}

pub fn run(ctx: &mut Ctx) -> (String, Value, Vec<String>) {
    crate::util::silence_panics();
    let cs = cases(ctx.quick());
    let n = AtomicU64::new(0);
    let nt = AtomicU64::new(0);
    let okc = AtomicU64::new(0);
    let bad = Mutex::new(vec![]);
    let per_ana = Mutex::new(std::collections::BTreeMap::<String, u64>::new());
    cs.par_iter().for_each(|c| {
        // the equations presuppose that the analysed task releases jobs at all
        if c.tasks[c.tua].arr.eta(BIG) == 0 {
            return;
        }
        let (k, t, m) = compare(c);
        n.fetch_add(k, Ordering::Relaxed);
        nt.fetch_add(t, Ordering::Relaxed);
        if catch(|| run_uni(c)).ok().and_then(|o| o.ok()).is_some() {
            okc.fetch_add(1, Ordering::Relaxed);
        }
        if !m.is_empty() {
            bad.lock().unwrap().extend(m);
        }
        *per_ana.lock().unwrap().entry(c.ana.name().to_string()).or_insert(0) += k;
    });
    // the large-parameter box
    let lc = large_cases(ctx.quick());
    let ln = AtomicU64::new(0);
    let lok = AtomicU64::new(0);
    let lmax = AtomicU64::new(0);
    lc.par_iter().for_each(|c| {
        let (k, t, m) = compare_with(c, BIG_LARGE);
        n.fetch_add(k, Ordering::Relaxed);
        ln.fetch_add(k, Ordering::Relaxed);
        nt.fetch_add(t, Ordering::Relaxed);
        if let Some(r) = catch(|| run_uni(c)).ok().and_then(|o| o.ok()) {
            lok.fetch_add(1, Ordering::Relaxed);
            lmax.fetch_max(r, Ordering::Relaxed);
        }
        if !m.is_empty() {
            let mut b = bad.lock().unwrap();
            if b.len() < 400 {
                b.extend(m);
            }
        }
        *per_ana.lock().unwrap().entry(c.ana.name().to_string()).or_insert(0) += k;
    });
    // the near-saturation box
    let sc = saturated_cases(ctx.quick());
    let sn_ = AtomicU64::new(0);
    let sok = AtomicU64::new(0);
    let smax = AtomicU64::new(0);
    sc.par_iter().for_each(|c| {
        let (k, t, m) = compare_with(c, BIG_SAT);
        n.fetch_add(k, Ordering::Relaxed);
        sn_.fetch_add(k, Ordering::Relaxed);
        nt.fetch_add(t, Ordering::Relaxed);
        if let Some(r) = catch(|| run_uni(c)).ok().and_then(|o| o.ok()) {
            sok.fetch_add(1, Ordering::Relaxed);
            smax.fetch_max(r, Ordering::Relaxed);
        }
        if !m.is_empty() {
            let mut b = bad.lock().unwrap();
            if b.len() < 600 {
                b.extend(m);
            }
        }
        *per_ana.lock().unwrap().entry(c.ana.name().to_string()).or_insert(0) += k;
    });
    let mut bad = bad.into_inner().unwrap();
    bad.sort_by(|a, b| a.1.len().cmp(&b.1.len()));
    for (k, w, c) in bad {
        ctx.violation(&k, &w, "uni-case", c);
    }
    let samples: Vec<Value> = cs.iter().step_by((cs.len() / 3).max(1)).take(3).map(|c| {
        json!({"case": c, "library": format!("{:?}", catch(|| run_uni(c))), "naive": ref_uni(c)})
    }).collect();
    let cov = json!({
        "evaluations": n.load(Ordering::Relaxed),
        "distinct_nontrivial": nt.load(Ordering::Relaxed),
        "rule": "every (analysis, task set, blocking, segment parameters, deadlines) tuple of the box x limits {60, R-1, R, R+1, R+3, 2R+1} (R = naive result; 7 and 13 when the naive evaluation diverges) is one comparison of the real analysis with the naive all-offset linear-scan evaluator; non-trivial = the naive result exceeds the analysed task's own WCET (divergences are compared too but not counted as non-trivial)",
        "cases": cs.len(),
        "cases_with_ok_result_at_limit_60": okc.load(Ordering::Relaxed),
        "large_parameter_box": {"rule": "four (thorough: five) sporadic tasks drawn with repetition, in every order, from (T,J,C) in {(10,0,2),(15,25,3),(20,0,5),(50,120,7),(7,0,1),(100,0,12),(30,30,1),(12,40,2)}; FP: tua = last and last-but-one task, blocking 0/4, segments ceil(C/2); EDF: deadlines T / 2C+5 / T+J, tua last and first; FIFO; limits {4000, R-1, R, R+1, R+3, 2R+1}",
                                "cases": lc.len(), "comparisons": ln.load(Ordering::Relaxed), "cases_with_ok_result": lok.load(Ordering::Relaxed), "largest_ok_result": lmax.load(Ordering::Relaxed)},
        "near_saturation_box": {"rule": "three jitter-free sporadic tasks, periods from {2,3,5,7,11,19,31} (thorough: {2,3,5,7,11,13,17,19,23,31,40}) in every order, costs 1..6 (9), total utilisation in [0.9, 1]; FP (tua last, blocking 0/2), EDF (D = T and D = 2T+1), FIFO; limits {3000, R-1, R, R+1, R+3, 2R+1}",
                                "cases": sc.len(), "comparisons": sn_.load(Ordering::Relaxed), "cases_with_ok_result": sok.load(Ordering::Relaxed), "largest_ok_result": smax.load(Ordering::Relaxed)},
        "comparisons_per_analysis": *per_ana.lock().unwrap(),
        "samples": samples,
        "exhaustive": true,
    });
    (
        "exploration".into(),
        cov,
        vec![
            "reference evaluator = refmodel::ref_uni (all offsets A in [0,L), linear scans, F = x monus A)".into(),
            "offsets at which no job of the analysed task can arrive carry no claim; never-arriving analysed tasks are excluded (covered by C20)".into(),
        ],
    )
}

pub fn replay(case: &Value) -> bool {
    let c: UniCase = serde_json::from_value(case.clone()).expect("bad case");
    let got = catch(|| run_uni(&c));
    let want = ref_uni(&c);
    println!("replay: library {:?} / naive evaluation {:?}", got, want);
    match got {
        Ok(o) => o.ok() != want,
        Err(_) => true,
    }
}
