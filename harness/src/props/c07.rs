//! C07: the six ROS 2 analyses == naive evaluation of their defining inequalities.

use crate::analysis::*;
use crate::refmodel::ref_ros;
use crate::spec::*;
use crate::util::{catch, Ctx};
use rayon::prelude::*;
use serde_json::{json, Value};
use std::sync::atomic::{AtomicU64, Ordering};
use std::sync::Mutex;

pub const LIMIT: u64 = 120;

pub fn supplies(quick: bool) -> Vec<SupplySpec> {
    let mut v = vec![
        SupplySpec::Dedicated,
        SupplySpec::Periodic { q: 1, p: 2 },
        SupplySpec::Periodic { q: 2, p: 3 },
        SupplySpec::Constrained { q: 1, dl: 2, p: 3 },
        SupplySpec::Opaque(Box::new(SupplySpec::Periodic { q: 2, p: 5 })),
        // budget = deadline < period, and budget = period
        SupplySpec::Constrained { q: 2, dl: 2, p: 4 },
        SupplySpec::Periodic { q: 3, p: 3 },
    ];
    if !quick {
        v.push(SupplySpec::Periodic { q: 1, p: 3 });
        v.push(SupplySpec::Periodic { q: 3, p: 5 });
        v.push(SupplySpec::Constrained { q: 2, dl: 3, p: 5 });
        v.push(SupplySpec::Constrained { q: 3, dl: 3, p: 3 });
        v.push(SupplySpec::Opaque(Box::new(SupplySpec::Constrained {
            q: 1,
            dl: 2,
            p: 4,
        })));
    }
    v
}

pub fn arr_menu(quick: bool) -> Vec<ArrSpec> {
    let mut v = vec![];
    let (ts, js): (Vec<u64>, Vec<u64>) = if quick {
        (vec![3, 5, 8], vec![0, 3])
    } else {
        (vec![2, 3, 4, 5, 6, 8, 11], vec![0, 1, 3, 6])
    };
    for t in &ts {
        for j in &js {
            v.push(ArrSpec::Sporadic { t: *t, j: *j });
        }
    }
    v.push(ArrSpec::Periodic { t: 4 });
    v.push(ArrSpec::Curve {
        dmin: vec![0, 6],
    });
    v.push(ArrSpec::ExtCurve {
        dmin: vec![1, 4, 8],
    });
    v.push(ArrSpec::Propagated {
        inner: Box::new(ArrSpec::Sporadic { t: 6, j: 0 }),
        j: 4,
    });
    if !quick {
        v.push(ArrSpec::Curve {
            dmin: vec![2, 2, 9],
        });
        v.push(ArrSpec::Jitter {
            inner: Box::new(ArrSpec::ExtCurve { dmin: vec![3, 7] }),
            j: 2,
        });
        v.push(ArrSpec::Sum(vec![
            ArrSpec::Sporadic { t: 7, j: 1 },
            ArrSpec::Periodic { t: 9 },
        ]));
    }
    v
}

fn acs(quick: bool) -> Vec<AC> {
    let mut v = vec![];
    for a in arr_menu(quick) {
        for c in 1..=(if quick { 2 } else { 3 }) {
            v.push((a.clone(), CostSpec::Scalar(c)));
        }
    }
    v.push((
        ArrSpec::Sporadic { t: 5, j: 2 },
        CostSpec::Multiframe(vec![2, 1]),
    ));
    v.push((ArrSpec::Sporadic { t: 6, j: 0 }, CostSpec::Curve(vec![2, 3])));
    v
}

pub fn cases(quick: bool) -> Vec<RosCase> {
    let sups = supplies(quick);
    let m = acs(quick);
    let thin: Vec<AC> = m
        .iter()
        .enumerate()
        .filter(|(i, _)| i % if quick { 4 } else { 3 } == 0)
        .map(|(_, x)| x.clone())
        .collect();
    let mut v = vec![];
    for sup in &sups {
        // event sources: one and two sources
        for a in &m {
            v.push(RosCase::EventSource {
                supply: sup.clone(),
                demand: vec![a.clone()],
                limit: LIMIT,
            });
            for b in &thin {
                v.push(RosCase::EventSource {
                    supply: sup.clone(),
                    demand: vec![a.clone(), b.clone()],
                    limit: LIMIT,
                });
            }
        }
        // timers
        for own in &m {
            for b in 0..=2u64 {
                v.push(RosCase::Timer {
                    supply: sup.clone(),
                    own: own.clone(),
                    hp: vec![],
                    blocking: b,
                    limit: LIMIT,
                });
            }
            for h in &m {
                for b in [0u64, 2] {
                    v.push(RosCase::Timer {
                        supply: sup.clone(),
                        own: own.clone(),
                        hp: vec![h.clone()],
                        blocking: b,
                        limit: LIMIT,
                    });
                }
            }
        }
        for own in &thin {
            for h1 in &thin {
                for h2 in &thin {
                    v.push(RosCase::Timer {
                        supply: sup.clone(),
                        own: own.clone(),
                        hp: vec![h1.clone(), h2.clone()],
                        blocking: 1,
                        limit: LIMIT,
                    });
                }
            }
        }
        // polling-point callbacks
        for own in &m {
            for h in &m {
                v.push(RosCase::Pp {
                    supply: sup.clone(),
                    own: own.clone(),
                    others: vec![h.clone()],
                    limit: LIMIT,
                });
            }
        }
        for own in &thin {
            for h1 in &thin {
                for h2 in &thin {
                    v.push(RosCase::Pp {
                        supply: sup.clone(),
                        own: own.clone(),
                        others: vec![h1.clone(), h2.clone()],
                        limit: LIMIT,
                    });
                }
            }
        }
        // chains whose callbacks have their own arrival curves: jitter growing along the chain
        for (t, j0) in [(6u64, 0u64), (9, 2), (12, 5)] {
            for (c1, c2, c3) in [(1u64, 1u64, 1u64), (2, 1, 2), (1, 3, 1)] {
                for o in &thin {
                    for grow in [1u64, 3] {
                        v.push(RosCase::ChainGeneral {
                            supply: sup.clone(),
                            chain: vec![
                                (ArrSpec::Sporadic { t, j: j0 }, CostSpec::Scalar(c1)),
                                (ArrSpec::Sporadic { t, j: j0 + grow }, CostSpec::Scalar(c2)),
                                (ArrSpec::Sporadic { t, j: j0 + 2 * grow + 1 }, CostSpec::Scalar(c3)),
                            ],
                            others: vec![o.clone()],
                            limit: LIMIT,
                        });
                    }
                }
                v.push(RosCase::ChainGeneral {
                    supply: sup.clone(),
                    chain: vec![
                        (ArrSpec::ExtCurve { dmin: vec![t, 2 * t] }, CostSpec::Scalar(c1)),
                        (ArrSpec::Propagated { inner: Box::new(ArrSpec::ExtCurve { dmin: vec![t, 2 * t] }), j: 4 }, CostSpec::Scalar(c3)),
                    ],
                    others: vec![thin[0].clone()],
                    limit: LIMIT,
                });
            }
        }
        // two-callback chains with a costly, heavily jittered last callback
        for t in [6u64, 8, 12] {
            for j1 in [0u64, 2] {
                for j2 in [j1 + 1, t + 1, 2 * t] {
                    for c1 in [1u64, 2] {
                        for c2 in [1u64, 4] {
                            for o in thin.iter().take(4).chain(std::iter::once(&(ArrSpec::Sporadic { t: 10, j: 0 }, CostSpec::Scalar(1)))) {
                                v.push(RosCase::ChainGeneral {
                                    supply: sup.clone(),
                                    chain: vec![
                                        (ArrSpec::Sporadic { t, j: j1 }, CostSpec::Scalar(c1)),
                                        (ArrSpec::Sporadic { t, j: j2 }, CostSpec::Scalar(c2)),
                                    ],
                                    others: vec![o.clone()],
                                    limit: LIMIT,
                                });
                            }
                        }
                    }
                }
            }
        }
        // chains of two and three callbacks
        for (src, _) in m.iter().step_by(2) {
            for c1 in 1..=2u64 {
                for c2 in 1..=2u64 {
                    for o in &thin {
                        v.push(RosCase::Chain {
                            supply: sup.clone(),
                            src: src.clone(),
                            costs: vec![CostSpec::Scalar(c1), CostSpec::Scalar(c2)],
                            others: vec![o.clone()],
                            limit: LIMIT,
                        });
                        v.push(RosCase::ChainSummed {
                            supply: sup.clone(),
                            src: src.clone(),
                            costs: vec![c1 + 1, c2],
                            others: vec![o.clone()],
                            limit: LIMIT,
                        });
                        v.push(RosCase::ChainSummed {
                            supply: sup.clone(),
                            src: src.clone(),
                            costs: vec![c2, 1, c1],
                            others: vec![o.clone(), thin[0].clone()],
                            limit: LIMIT,
                        });
                    }
                    v.push(RosCase::Chain {
                        supply: sup.clone(),
                        src: src.clone(),
                        costs: vec![
                            CostSpec::Scalar(c1),
                            CostSpec::Multiframe(vec![1, 2]),
                            CostSpec::Scalar(c2),
                        ],
                        others: vec![thin[0].clone(), thin[thin.len() - 1].clone()],
                        limit: LIMIT,
                    });
                }
            }
        }
    }
    // rr / bw subchains
    let kinds = [
        Kind::Timer,
        Kind::EventSource,
        Kind::PolledUnknown,
        Kind::Polled(1),
        Kind::Polled(5),
        // sentinel priorities at both ends of the value range
        Kind::Polled(i32::MIN),
        Kind::Polled(i32::MAX),
    ];
    let assumed: Vec<u64> = if quick { vec![2, 7] } else { vec![1, 3, 7, 12] };
    let arrs: Vec<ArrSpec> = arr_menu(quick)
        .into_iter()
        .step_by(if quick { 3 } else { 2 })
        .collect();
    let mut cbs: Vec<CbCase> = vec![];
    for a in &arrs {
        for c in [1u64, 2] {
            for k in &kinds {
                for r in &assumed {
                    cbs.push(CbCase {
                        arr: a.clone(),
                        cost: CostSpec::Scalar(c),
                        kind: *k,
                        assumed: *r,
                    });
                }
            }
        }
    }
    cbs.push(CbCase {
        arr: ArrSpec::Sporadic { t: 6, j: 2 },
        cost: CostSpec::Multiframe(vec![2, 1, 1]),
        kind: Kind::Polled(3),
        assumed: 5,
    });
    let sub_sups: Vec<SupplySpec> = sups.iter().step_by(2).cloned().collect();
    let third = CbCase {
        arr: ArrSpec::Sporadic { t: 9, j: 3 },
        cost: CostSpec::Scalar(2),
        kind: Kind::Polled(3),
        assumed: 9,
    };
    for sup in &sub_sups {
        for bw in [false, true] {
            for (i, a) in cbs.iter().enumerate() {
                for (j, b) in cbs.iter().enumerate() {
                    // thin the quadratic product deterministically
                    if (i * 31 + j * 17) % (if quick { 23 } else { 5 }) != 0 {
                        continue;
                    }
                    for sc in [vec![0usize], vec![1], vec![0, 1], vec![1, 0]] {
                        v.push(RosCase::Sub {
                            bw,
                            supply: sup.clone(),
                            workload: vec![a.clone(), b.clone()],
                            subchain: sc,
                            limit: LIMIT,
                        });
                    }
                    if (i + j) % 3 == 0 {
                        for sc in [vec![2usize], vec![0, 2], vec![1, 2, 0]] {
                            v.push(RosCase::Sub {
                                bw,
                                supply: sup.clone(),
                                workload: vec![a.clone(), b.clone(), third.clone()],
                                subchain: sc,
                                limit: LIMIT,
                            });
                        }
                    }
                }
            }
        }
    }
    v
}

pub fn set_limit(c: &RosCase, l: u64) -> RosCase {
    let mut c = c.clone();
    match &mut c {
        RosCase::EventSource { limit, .. }
        | RosCase::Timer { limit, .. }
        | RosCase::Pp { limit, .. }
        | RosCase::Chain { limit, .. }
        | RosCase::ChainSummed { limit, .. }
        | RosCase::ChainGeneral { limit, .. }
        | RosCase::Sub { limit, .. } => *limit = l,
    }
    c
}

pub fn name(c: &RosCase) -> &'static str {
    match c {
        RosCase::EventSource { .. } => "ros2::rta_event_source",
        RosCase::Timer { .. } => "ros2::rta_timer",
        RosCase::Pp { .. } => "ros2::rta_polling_point_callback",
        RosCase::Chain { .. } | RosCase::ChainSummed { .. } | RosCase::ChainGeneral { .. } => "ros2::rta_processing_chain",
        RosCase::Sub { bw: false, .. } => "ros2::rr::rta_subchain",
        RosCase::Sub { bw: true, .. } => "ros2::bw::rta_subchain",
    }
}

/// the analysed callback's arrival model and WCET
pub fn analysed(c: &RosCase) -> (ArrSpec, u64) {
    match c {
        RosCase::EventSource { demand, .. } => (
            ArrSpec::Sum(demand.iter().map(|x| x.0.clone()).collect()),
            demand.iter().map(|x| x.1.wcet()).max().unwrap(),
        ),
        RosCase::Timer { own, .. } | RosCase::Pp { own, .. } => (own.0.clone(), own.1.wcet()),
        RosCase::Chain { src, costs, .. } => (src.clone(), costs.last().unwrap().wcet()),
        RosCase::ChainSummed { src, costs, .. } => (src.clone(), *costs.last().unwrap()),
        RosCase::ChainGeneral { chain, .. } => (ArrSpec::Sum(chain.iter().map(|x| x.0.clone()).collect()), chain.last().unwrap().1.wcet()),
        RosCase::Sub {
            workload, subchain, ..
        } => {
            let e = *subchain.last().unwrap();
            (workload[e].arr.clone(), workload[e].cost.wcet())
        }
    }
}

pub fn compare(c0: &RosCase) -> (u64, u64, Vec<(String, String, Value)>) {
    compare_with(c0, LIMIT)
}

pub const LIMIT_LARGE: u64 = 2500;

/// Executors that are not tiny: three (thorough: four) callbacks with periods, jitters and costs
/// in the tens and hundreds, reservations with periods 10..25.
pub fn large_cases(quick: bool) -> Vec<RosCase> {
    let menu: Vec<(u64, u64, u64)> = vec![(20, 0, 2), (30, 45, 3), (50, 0, 5), (100, 250, 4), (15, 0, 1), (40, 40, 6)];
    let sups = vec![SupplySpec::Dedicated, SupplySpec::Periodic { q: 5, p: 10 }, SupplySpec::Constrained { q: 6, dl: 9, p: 25 }];
    let ncb = if quick { 3 } else { 4 };
    let n = menu.len();
    let mut v = vec![];
    for i in 0..n.pow(ncb as u32) {
        let idx = crate::props::uni::product_index(i as u64, n, ncb);
        let acs: Vec<AC> = idx.iter().map(|k| (ArrSpec::Sporadic { t: menu[*k].0, j: menu[*k].1 }, CostSpec::Scalar(menu[*k].2))).collect();
        for sup in &sups {
            let limit = LIMIT_LARGE;
            v.push(RosCase::EventSource { supply: sup.clone(), demand: acs.clone(), limit });
            v.push(RosCase::Timer { supply: sup.clone(), own: acs[0].clone(), hp: acs[1..].to_vec(), blocking: 5, limit });
            v.push(RosCase::Pp { supply: sup.clone(), own: acs[0].clone(), others: acs[1..].to_vec(), limit });
            v.push(RosCase::Chain { supply: sup.clone(), src: acs[0].0.clone(), costs: vec![acs[1].1.clone(), acs[0].1.clone()], others: acs[1..].to_vec(), limit });
            let patterns: Vec<Vec<Kind>> = vec![
                vec![Kind::Timer, Kind::PolledUnknown, Kind::PolledUnknown, Kind::Timer],
                vec![Kind::Polled(0), Kind::Polled(1), Kind::Polled(2), Kind::Polled(3)],
                vec![Kind::Polled(3), Kind::Polled(1), Kind::Polled(2), Kind::Polled(0)],
                vec![Kind::Polled(i32::MAX), Kind::Polled(0), Kind::Polled(i32::MIN), Kind::Polled(-7)],
                vec![Kind::Polled(i32::MIN), Kind::Polled(i32::MAX), Kind::Polled(1 << 30), Kind::PolledUnknown],
                vec![Kind::PolledUnknown, Kind::Timer, Kind::EventSource, Kind::Polled(1)],
            ];
            for bw in [false, true] {
                for kinds in &patterns {
                    for sc in [vec![0usize], vec![1, 0]] {
                        for amode in [0u8, 1] {
                            let workload: Vec<CbCase> = idx
                                .iter()
                                .enumerate()
                                .map(|(pos, k)| CbCase {
                                    arr: acs[pos].0.clone(),
                                    cost: acs[pos].1.clone(),
                                    kind: kinds[pos],
                                    assumed: if amode == 0 { menu[*k].0 } else { 2 * menu[*k].0 + menu[*k].1 },
                                })
                                .collect();
                            v.push(RosCase::Sub { bw, supply: sup.clone(), workload, subchain: sc.clone(), limit });
                        }
                    }
                }
            }
        }
    }
    v
}

/// `big` = the generous divergence limit of the box the case belongs to
pub fn compare_with(c0: &RosCase, big: u64) -> (u64, u64, Vec<(String, String, Value)>) {
    let mut out = vec![];
    let want_big = match catch(|| ref_ros(c0)) {
        Ok(v) => v,
        Err(e) => {
            out.push((
                "library-call-inside-reference-evaluator#panic".into(),
                format!("a black-box call on the library object panicked while the reference evaluator ran: {e} on {:?}", c0),
                serde_json::to_value(c0).unwrap(),
            ));
            return (0, 0, out);
        }
    };
    let mut limits = vec![big];
    if let Some(r) = want_big {
        for l in [r.saturating_sub(1), r, r + 2] {
            if l <= big && l > 0 && !limits.contains(&l) {
                limits.push(l);
            }
        }
    } else {
        limits.push(9);
    }
    let (_, wcet) = analysed(c0);
    let mut n = 0;
    let mut nt = 0;
    for l in limits {
        let c = set_limit(c0, l);
        let want = if l == big { want_big } else { ref_ros(&c) };
        let got = catch(|| run_ros(&c));
        n += 1;
        if want.map(|w| w > wcet).unwrap_or(false) {
            nt += 1;
        }
        match got {
            Err(e) => out.push((
                format!("{}#panic", name(&c)),
                format!("{} panicked ({e}) on {:?}", name(&c), c),
                serde_json::to_value(&c).unwrap(),
            )),
            Ok(o) => {
                if o.ok() != want {
                    let kind = if o.ok().is_some() != want.is_some() {
                        "err-mismatch"
                    } else {
                        "value-mismatch"
                    };
                    out.push((
                        format!("{}#{}", name(&c), kind),
                        format!(
                            "{}: returned {:?} but naive evaluation of the defining inequalities gives {:?} on {:?}",
                            name(&c), o, want, c
                        ),
                        serde_json::to_value(&c).unwrap(),
                    ));
                }
            }
        }
    }
    (n, nt, out)
}

pub fn run(ctx: &mut Ctx) -> (String, Value, Vec<String>) {
    crate::util::silence_panics();
    let cs = cases(ctx.quick());
    let n = AtomicU64::new(0);
    let nt = AtomicU64::new(0);
    let bad = Mutex::new(vec![]);
    let per = Mutex::new(std::collections::BTreeMap::<String, u64>::new());
    cs.par_iter().for_each(|c| {
        // the inequalities presuppose that the analysed callback is activated at all
        if analysed(c).0.eta(LIMIT) == 0 {
            return;
        }
        let (k, t, m) = compare(c);
        n.fetch_add(k, Ordering::Relaxed);
        nt.fetch_add(t, Ordering::Relaxed);
        bad.lock().unwrap().extend(m);
        *per.lock().unwrap().entry(name(c).to_string()).or_insert(0) += k;
    });
    // the large-parameter box
    let lc = large_cases(ctx.quick());
    let ln = AtomicU64::new(0);
    let lok = AtomicU64::new(0);
    let lmax = AtomicU64::new(0);
    lc.par_iter().for_each(|c| {
        let (k, t, m) = compare_with(c, LIMIT_LARGE);
        n.fetch_add(k, Ordering::Relaxed);
        ln.fetch_add(k, Ordering::Relaxed);
        nt.fetch_add(t, Ordering::Relaxed);
        if let Some(r) = catch(|| run_ros(c)).ok().and_then(|o| o.ok()) {
            lok.fetch_add(1, Ordering::Relaxed);
            lmax.fetch_max(r, Ordering::Relaxed);
        }
        if !m.is_empty() {
            let mut b = bad.lock().unwrap();
            if b.len() < 400 {
                b.extend(m);
            }
        }
        *per.lock().unwrap().entry(name(c).to_string()).or_insert(0) += k;
    });
    let mut bad = bad.into_inner().unwrap();
    bad.sort_by(|a, b| a.1.len().cmp(&b.1.len()));
    for (k, w, c) in bad {
        ctx.violation(&k, &w, "ros-case", c);
    }
    let samples: Vec<Value> = cs
        .iter()
        .step_by((cs.len() / 4).max(1))
        .take(4)
        .map(|c| json!({"case": c, "library": format!("{:?}", catch(|| run_ros(c))), "naive": ref_ros(c)}))
        .collect();
    let cov = json!({
        "evaluations": n.load(Ordering::Relaxed),
        "distinct_nontrivial": nt.load(Ordering::Relaxed),
        "rule": "every case of the box (analysis x supply x workload x kinds x assumed bounds x subchain) x limits {120, R-1, R, R+2} is one comparison of the real analysis with the naive evaluator (every offset / activation, linear-scan fixed points, SBF = min over all paths of the reservation automaton); non-trivial = naive result exceeds the analysed callback's WCET (divergences are compared too but not counted)",
        "cases": cs.len(),
        "large_parameter_box": {"rule": "three (thorough: four) callbacks drawn with repetition, in every order, from (T,J,C) in {(20,0,2),(30,45,3),(50,0,5),(100,250,4),(15,0,1),(40,40,6)} x supplies {dedicated, Periodic(5,10), Constrained(6,9,25)} x all six analyses (rr/bw: six kind patterns incl. priorities at both ends of the i32 range, singleton and two-element subchains, assumed bounds T and 2T+J); limits {2500, R-1, R, R+2}",
                                "cases": lc.len(), "comparisons": ln.load(Ordering::Relaxed), "cases_with_ok_result": lok.load(Ordering::Relaxed), "largest_ok_result": lmax.load(Ordering::Relaxed)},
        "comparisons_per_analysis": *per.lock().unwrap(),
        "samples": samples,
        "exhaustive": true,
    });
    (
        "exploration".into(),
        cov,
        vec![
            "reference evaluator = refmodel::ref_ros; supply seen only through the reservation automaton's min-service table".into(),
            "offsets / activations at which no instance of the analysed callback can arrive carry no claim; never-activated analysed callbacks are excluded (covered by C20)".into(),
        ],
    )
}

pub fn replay(case: &Value) -> bool {
    let c: RosCase = serde_json::from_value(case.clone()).expect("bad case");
    let got = catch(|| run_ros(&c));
    let want = ref_ros(&c);
    println!("replay: library {:?} / naive evaluation {:?}", got, want);
    match got {
        Ok(o) => o.ok() != want,
        Err(_) => true,
    }
}
