//! C08: fixed-point search returns the least solution or reports divergence; max_response_time.

use crate::refmodel::RefSupply;
use crate::spec::*;
use crate::util::{catch, Ctx};
use rayon::prelude::*;
use response_time_analysis::fixed_point::{self, SearchFailure, SearchResult};
use response_time_analysis::time::Offset;
use serde_json::{json, Value};
use std::sync::atomic::{AtomicU64, Ordering};
use std::sync::Mutex;

/// all non-decreasing functions {1..n} -> {0..m}
pub fn monotone_tables(n: usize, m: u64) -> Vec<Vec<u64>> {
    fn rec(cur: &mut Vec<u64>, n: usize, m: u64, out: &mut Vec<Vec<u64>>) {
        if cur.len() == n {
            out.push(cur.clone());
            return;
        }
        let lo = cur.last().copied().unwrap_or(0);
        for v in lo..=m {
            cur.push(v);
            rec(cur, n, m, out);
            cur.pop();
        }
    }
    let mut out = vec![];
    rec(&mut vec![], n, m, &mut out);
    out
}

pub fn supplies(pmax: u64) -> Vec<SupplySpec> {
    let mut v = vec![SupplySpec::Dedicated];
    for p in 1..=pmax {
        for q in 1..=p {
            v.push(SupplySpec::Periodic { q, p });
            for dl in q..=p {
                v.push(SupplySpec::Constrained { q, dl, p });
            }
        }
    }
    let wrapped: Vec<SupplySpec> = v.iter().map(|s| SupplySpec::Opaque(Box::new(s.clone()))).collect();
    v.extend(wrapped);
    v
}

#[derive(serde::Serialize, serde::Deserialize, Clone, Debug)]
pub struct FpCase {
    pub supply: SupplySpec,
    pub table: Vec<u64>,
    pub offset: u64,
    pub limit: u64,
}

fn w(table: &[u64], r: u64) -> u64 {
    table[(r.max(1) as usize).min(table.len()) - 1]
}

pub fn lib(c: &FpCase) -> SearchResult {
    let sup = c.supply.build();
    let t = c.table.clone();
    fixed_point::search_with_offset(&sup, Offset::from(c.offset), d(c.limit), &move |r| {
        s(w(&t, du(r)))
    })
}

/// The same search with a workload that is 0 at r = 0 (the natural shape of a request-bound
/// function): the statement evaluates the workload at max(r, 1) only, so the result must not
/// depend on the value at 0.
pub fn lib_zero_at_zero(c: &FpCase) -> SearchResult {
    let sup = c.supply.build();
    let t = c.table.clone();
    fixed_point::search_with_offset(&sup, Offset::from(c.offset), d(c.limit), &move |r| {
        if du(r) == 0 {
            s(0)
        } else {
            s(w(&t, du(r)))
        }
    })
}

pub fn lib_search(c: &FpCase) -> SearchResult {
    let sup = c.supply.build();
    let t = c.table.clone();
    fixed_point::search(&sup, d(c.limit), move |r| s(w(&t, du(r))))
}

pub fn oracle(rs: &RefSupply, c: &FpCase) -> Result<u64, (u64, u64)> {
    match rs.lfp(c.offset, c.limit, &|r| w(&c.table, r)) {
        Some(r) => Ok(r),
        None => Err((c.offset, c.limit)),
    }
}

fn same(got: &SearchResult, want: &Result<u64, (u64, u64)>) -> bool {
    match (got, want) {
        (Ok(a), Ok(b)) => du(*a) == *b,
        (Err(SearchFailure::DivergenceLimitExceeded { offset, limit }), Err((o, l))) => {
            u64::from(*offset) == *o && du(*limit) == *l
        }
        _ => false,
    }
}

pub fn run(ctx: &mut Ctx) -> (String, Value, Vec<String>) {
    crate::util::silence_panics();
    let (n, m, pmax) = if ctx.quick() { (6, 6, 4) } else { (8, 8, 5) };
    let tables = monotone_tables(n, m);
    let sups = supplies(pmax);
    let evals = AtomicU64::new(0);
    let nontrivial = AtomicU64::new(0);
    let bad = Mutex::new(vec![]);
    let samples = Mutex::new(vec![]);
    for sup in &sups {
        let rs = RefSupply::new(sup, 400);
        tables.par_iter().for_each(|t| {
            let mut local_bad = vec![];
            // offsets inside the busy window: A = 0 or sbf(A-1) < w(1)
            let mut a = 0u64;
            loop {
                if a > 0 && rs.sbf(a - 1) >= t[0] {
                    break;
                }
                // limits: 0 ..= fixed point + 2 (or a divergence horizon)
                let fp = rs.lfp(a, 80, &|r| w(t, r));
                let lmax = fp.map(|x| x + 2).unwrap_or(30);
                let mut prev_ok: Option<u64> = None;
                for limit in 0..=lmax {
                    let c = FpCase {
                        supply: sup.clone(),
                        table: t.clone(),
                        offset: a,
                        limit,
                    };
                    let want = oracle(&rs, &c);
                    let got = catch(|| lib(&c));
                    evals.fetch_add(1, Ordering::Relaxed);
                    if want.map(|r| r > t[0]).unwrap_or(false) {
                        nontrivial.fetch_add(1, Ordering::Relaxed);
                    }
                    {
                        // w(0) = 0 < w(1): the least solution is defined through w(max(r, 1))
                        let got0 = catch(|| lib_zero_at_zero(&c));
                        evals.fetch_add(1, Ordering::Relaxed);
                        let differs = match (&got, &got0) {
                            (Ok(x), Ok(y)) => format!("{:?}", x) != format!("{:?}", y),
                            (Err(_), Err(_)) => false,
                            _ => true,
                        };
                        if differs {
                            local_bad.push((
                                "fixed_point::search_with_offset#depends-on-workload-at-zero".to_string(),
                                format!("search_with_offset gives {:?} when the workload is 0 at r = 0 and {:?} when it is w(1) there (the least solution is defined through w(max(r, 1)) only) on {:?}", got0, got, c),
                                c.clone(),
                            ));
                        }
                    }
                    match &got {
                        Err(e) => local_bad.push((
                            "fixed_point::search_with_offset#panic".to_string(),
                            format!("search_with_offset panicked ({e}) on {:?}", c),
                            c.clone(),
                        )),
                        Ok(g) => {
                            if !same(g, &want) {
                                let key = if limit == 0 && want == Ok(0) {
                                    "fixed_point::search_with_offset#limit-zero-no-demand"
                                } else {
                                    "fixed_point::search_with_offset#not-least-solution"
                                };
                                local_bad.push((
                                    key.to_string(),
                                    format!(
                                        "search_with_offset returned {:?}, least solution by linear scan is {:?} on {:?}",
                                        g, want, c
                                    ),
                                    c.clone(),
                                ));
                            }
                            // an Ok result never changes when the limit is raised
                            if let Ok(v) = g {
                                if let Some(p) = prev_ok {
                                    if p != du(*v) {
                                        local_bad.push((
                                            "fixed_point::search_with_offset#ok-changes-with-limit".to_string(),
                                            format!("Ok({p}) became Ok({}) when the limit was raised on {:?}", du(*v), c),
                                            c.clone(),
                                        ));
                                    }
                                }
                                prev_ok = Some(du(*v));
                            } else if prev_ok.is_some() {
                                local_bad.push((
                                    "fixed_point::search_with_offset#ok-changes-with-limit".to_string(),
                                    format!("Ok became Err when the limit was raised on {:?}", c),
                                    c.clone(),
                                ));
                            }
                        }
                    }
                    if a == 0 {
                        // `search` (offset 0; in debug builds cross-checked by the library's own
                        // brute force) must agree as well
                        let g2 = catch(|| lib_search(&c));
                        evals.fetch_add(1, Ordering::Relaxed);
                        match g2 {
                            Err(e) => local_bad.push((
                                "fixed_point::search#panic".to_string(),
                                format!("search panicked ({e}) on {:?}", c),
                                c.clone(),
                            )),
                            Ok(g2) => {
                                if !same(&g2, &want) {
                                    let key = if limit == 0 && want == Ok(0) {
                                        "fixed_point::search#limit-zero-no-demand"
                                    } else {
                                        "fixed_point::search#not-least-solution"
                                    };
                                    local_bad.push((
                                        key.to_string(),
                                        format!("search returned {:?}, least solution is {:?} on {:?}", g2, want, c),
                                        c.clone(),
                                    ));
                                }
                            }
                        }
                    }
                }
                // limits near the top of the value range ("no threshold"): the least solution is
                // still the answer
                if let Some(x) = fp {
                    let mut huge = vec![u64::MAX, u64::MAX - 1, 1u64 << 63, u64::MAX - a];
                    if a > 0 {
                        huge.push(u64::MAX - a + 1);
                        huge.push(u64::MAX - a - x);
                    }
                    for limit in huge {
                        let c = FpCase { supply: sup.clone(), table: t.clone(), offset: a, limit };
                        evals.fetch_add(1, Ordering::Relaxed);
                        match catch(|| lib(&c)) {
                            Ok(Ok(v)) if du(v) == x => {}
                            Ok(g) => local_bad.push(("fixed_point::search_with_offset#not-least-solution+huge-limit".to_string(), format!("search_with_offset returned {:?}, least solution by linear scan is Ok({x}) on {:?}", g, c), c.clone())),
                            Err(e) => local_bad.push(("fixed_point::search_with_offset#panic".to_string(), format!("search_with_offset panicked ({e}) on {:?}", c), c.clone())),
                        }
                        if a == 0 {
                            evals.fetch_add(1, Ordering::Relaxed);
                            match catch(|| lib_search(&c)) {
                                Ok(Ok(v)) if du(v) == x => {}
                                Ok(g) => local_bad.push(("fixed_point::search#not-least-solution+huge-limit".to_string(), format!("search returned {:?}, least solution is Ok({x}) on {:?}", g, c), c.clone())),
                                Err(e) => local_bad.push(("fixed_point::search#panic".to_string(), format!("search panicked ({e}) on {:?}", c), c.clone())),
                            }
                        }
                    }
                }
                a += 1;
                if a > 40 {
                    break;
                }
            }
            if !local_bad.is_empty() {
                bad.lock().unwrap().extend(local_bad);
            }
            if t[0] == 2 && t[n - 1] == m && samples.lock().unwrap().len() < 3 {
                let c = FpCase { supply: sup.clone(), table: t.clone(), offset: 0, limit: 40 };
                samples.lock().unwrap().push(json!({"case": c, "library": format!("{:?}", lib(&c)), "least_solution": format!("{:?}", oracle(&rs, &c))}));
            }
        });
    }
    let mut bad = bad.into_inner().unwrap();
    bad.sort_by_key(|b| (b.2.limit, b.2.offset, b.2.table.clone()));
    for (k, what, c) in bad {
        ctx.violation(&k, &what, "fp-case", serde_json::to_value(&c).unwrap());
    }
    // ---- searches that are not tiny: (i) slow convergence — w(r) = min(r + 1, N) creeps up
    // one tick per iteration for N iterations; (ii) large values — sporadic-like step workloads
    // with parameters around 10^6..10^7 (the reference is the exact Kleene iteration from below)
    let mut big = 0u64;
    for nn in if ctx.quick() { vec![12_000u64, 70_000] } else { vec![9_999u64, 10_000, 10_001, 12_000, 70_000, 300_000] } {
        for sup in [SupplySpec::Dedicated, SupplySpec::Periodic { q: 1, p: 2 }, SupplySpec::Opaque(Box::new(SupplySpec::Periodic { q: 1, p: 2 }))] {
            // w(r) <= r + 1 > sbf(r) until the cap N is reached: the least solution is the first
            // instant at which N units of service are guaranteed (from the reservation automaton)
            let want = RefSupply::new(&sup, (2 * nn + 10) as usize).service_time(nn);
            big += 1;
            let sb = sup.build();
            let r = catch(|| fixed_point::search(&sb, d(10 * nn), |r| s((du(r) + 1).min(nn))));
            let r2 = catch(|| fixed_point::search_with_offset(&sb, Offset::from(0), d(10 * nn), &|r| s((du(r) + 1).min(nn))));
            for (name, r) in [("search", r), ("search_with_offset", r2)] {
                match r {
                    Ok(Ok(v)) if du(v) == want => {}
                    other => ctx.violation(&format!("fixed_point::{name}#not-least-solution+slow-convergence"), &format!("{name} on {:?} with w(r) = min(r + 1, {nn}), limit {}: returned {:?}, the least solution is {want}", sup, 10 * nn, other), "fp-slow", json!({"supply": sup, "n": nn})),
                }
            }
        }
    }
    for (c0, t1, c1, t2, j2, c2) in [(4_000_000u64, 10_000_000u64, 3_000_000u64, 7_000_000u64, 1_000u64, 2_000_000u64), (1_000_000, 3_000_000, 1_000_001, 5_000_000, 4_999_000, 1_500_000), (400_001, 1_000_000, 300_000, 700_000, 1_000, 200_000), (96, 95, 47, 97, 0, 49),
        // large and tiny steps mixed: near the fixed point the iterates move by a few ticks only
        (4_000_000, 10_000_000, 3_000_000, 3, 0, 1), (1_000_000, 2_500_000, 500_000, 7, 5, 4), (40_000_000, 90_000_000, 25_000_000, 2, 1, 1), (1_400_000, 10_000_000, 1, 5, 1_000, 3)] {
        let w = move |r: u64| c0 + r.div_ceil(t1) * c1 + (r + j2).div_ceil(t2) * c2;
        // Kleene iteration from below (exact)
        let mut x = 1u64;
        let want = loop {
            let y = w(x);
            if y <= x {
                break y.max(w(y.max(1)));
            }
            x = y;
            if x > 1u64 << 50 {
                break u64::MAX;
            }
        };
        if want == u64::MAX {
            continue;
        }
        big += 1;
        let sb = SupplySpec::Dedicated.build();
        let r = catch(|| fixed_point::search_with_offset(&sb, Offset::from(0), d(1u64 << 52), &move |r| s(w(du(r)))));
        match r {
            Ok(Ok(v)) if du(v) == want => {}
            other => ctx.violation("fixed_point::search_with_offset#not-least-solution+large-values", &format!("workload {c0} + ceil(r/{t1})*{c1} + ceil((r+{j2})/{t2})*{c2} on a dedicated processor: returned {:?}, the least fixed point (exact Kleene iteration) is {want}", other), "fp-large", json!({"w": [c0, t1, c1, t2, j2, c2]})),
        }
    }
    // ---- max_response_time: every sequence of length <= 4 over {Ok(0..3), Err(a), Err(b)}
    let ea = SearchFailure::DivergenceLimitExceeded { offset: Offset::from(3), limit: d(10) };
    let eb = SearchFailure::DivergenceLimitExceeded { offset: Offset::from(5), limit: d(10) };
    let alphabet: Vec<SearchResult> = vec![Ok(d(0)), Ok(d(1)), Ok(d(2)), Ok(d(3)), Err(ea), Err(eb), Err(SearchFailure::AssumptionViolated)];
    let mut mrt = 0u64;
    for len in 0..=4usize {
        let total = alphabet.len().pow(len as u32);
        for idx in 0..total {
            let sel = crate::props::uni::product_index(idx as u64, alphabet.len(), len);
            let seq: Vec<SearchResult> = sel.iter().map(|k| alphabet[*k]).collect();
            let want: SearchResult = match seq.iter().find(|x| x.is_err()) {
                Some(e) => *e,
                None => Ok(seq.iter().map(|x| x.unwrap()).max().unwrap_or(d(0))),
            };
            let got = fixed_point::max_response_time(seq.iter().copied());
            mrt += 1;
            if got != want {
                ctx.violation(
                    "fixed_point::max_response_time#wrong-combination",
                    &format!("max_response_time({:?}) = {:?}, expected {:?}", seq, got, want),
                    "mrt-case",
                    json!({"seq": sel}),
                );
            }
        }
    }
    let ev = evals.load(Ordering::Relaxed) + mrt + big;
    let mut smp = samples.into_inner().unwrap();
    smp.push(json!({"max_response_time_sequences": mrt}));
    let cov = json!({
        "evaluations": ev,
        "distinct_nontrivial": nontrivial.load(Ordering::Relaxed),
        "rule": format!("all {} non-decreasing workload tables {{1..{n}}}->{{0..{m}}} (constant beyond) x {} supplies (dedicated, periodic, constrained with P<={pmax}, each also behind an opaque wrapper that exercises the default service_time) x every offset with A=0 or sbf(A-1)<w(1) x every limit 0..=fixed point+2 and six limits near u64::MAX; plus slow-convergence workloads (10^4..3*10^5 iterations) and step workloads with values around 10^6..10^7; non-trivial = the least solution exceeds w(1) (more than one iteration)", tables.len(), sups.len()),
        "workload_tables": tables.len(),
        "supplies": sups.len(),
        "max_response_time_sequences": mrt,
        "samples": smp,
        "exhaustive": true,
    });
    (
        "exploration".into(),
        cov,
        vec!["oracle: least r >= 0 with sbf(A+r) >= w(max(r,1)) by linear scan over the reservation automaton's min-service table".into()],
    )
}

pub fn replay(case: &Value) -> bool {
    if let Some(nn) = case.get("n").and_then(|x| x.as_u64()) {
        let sup: SupplySpec = serde_json::from_value(case["supply"].clone()).unwrap();
        let want = RefSupply::new(&sup, (2 * nn + 10) as usize).service_time(nn);
        let sb = sup.build();
        let r = catch(|| fixed_point::search(&sb, d(10 * nn), |r| s((du(r) + 1).min(nn))));
        println!("replay: library {:?}, least solution {want}", r);
        return !matches!(r, Ok(Ok(v)) if du(v) == want);
    }
    if let Some(wv) = case.get("w") {
        let p: Vec<u64> = serde_json::from_value(wv.clone()).unwrap();
        let w = move |r: u64| p[0] + r.div_ceil(p[1]) * p[2] + (r + p[4]).div_ceil(p[3]) * p[5];
        let mut x = 1u64;
        let want = loop {
            let y = w(x);
            if y <= x {
                break y;
            }
            x = y;
        };
        let sb = SupplySpec::Dedicated.build();
        let r = catch(|| fixed_point::search_with_offset(&sb, Offset::from(0), d(1u64 << 52), &move |r| s(w(du(r)))));
        println!("replay: library {:?}, least fixed point {want}", r);
        return !matches!(r, Ok(Ok(v)) if du(v) == want);
    }
    let c: FpCase = serde_json::from_value(case.clone()).expect("bad case");
    let rs = RefSupply::new(&c.supply, 400);
    let want = oracle(&rs, &c);
    let got = catch(|| lib(&c));
    let got0 = catch(|| lib_zero_at_zero(&c));
    println!("replay: library {:?} / with a workload that is 0 at r = 0: {:?} / least solution {:?}", got, got0, want);
    let bad0 = match got0 {
        Ok(g) => !same(&g, &want),
        Err(_) => true,
    };
    match got {
        Ok(g) => !same(&g, &want) || bad0,
        Err(_) => true,
    }
}
