//! C09 (supply-bound functions vs the reservation automaton) and C10 (arrival models vs the
//! automata of their documented processes).

use crate::automata::{literal, Aut, Reservation};
use crate::spec::*;
use crate::util::{catch, machinery_error, Ctx};
use response_time_analysis::arrival::ArrivalBound;
use response_time_analysis::supply::SupplyBound;
use serde_json::{json, Value};

/// literal enumeration: all ways of placing Q units in the first D slots of each of 3 periods
fn sbf_literal(q: u64, dl: u64, p: u64, hmax: u64) -> Vec<u64> {
    fn subsets(dl: u64, q: u64) -> Vec<Vec<bool>> {
        let mut out = vec![];
        for mask in 0u32..(1 << dl) {
            if mask.count_ones() as u64 == q {
                out.push((0..dl).map(|i| (mask >> i) & 1 == 1).collect());
            }
        }
        out
    }
    let subs = subsets(dl, q);
    let mut best = vec![u64::MAX; hmax as usize + 1];
    best[0] = 0;
    for a in &subs {
        for b in &subs {
            for c in &subs {
                let mut line = vec![false; (3 * p) as usize];
                for (k, s) in [a, b, c].iter().enumerate() {
                    for (i, x) in s.iter().enumerate() {
                        line[k * p as usize + i] = *x;
                    }
                }
                // windows starting in the first period
                for start in 0..p as usize {
                    let mut acc = 0;
                    for len in 1..=hmax as usize {
                        if start + len > line.len() {
                            break;
                        }
                        acc += line[start + len - 1] as u64;
                        best[len] = best[len].min(acc);
                    }
                }
            }
        }
    }
    best
}

pub fn run_c09(ctx: &mut Ctx) -> (String, Value, Vec<String>) {
    crate::util::silence_panics();
    let (pmax, plit, palg) = if ctx.quick() { (10u64, 5u64, 30u64) } else { (24, 6, 60) };
    let mut states = 0u64;
    let mut trans = 0u64;
    let mut evals = 0u64;
    let mut nontrivial = 0u64;
    let mut validated = 0u64;
    let mut samples = vec![];
    for p in 1..=pmax {
        for q in 1..=p {
            for dl in q..=p {
                let r = Reservation { q: q as u8, dl: dl as u8, p: p as u8 };
                let h = (4 * p + 3) as usize;
                let (m, ns, nt) = r.sbf(h);
                states += ns as u64;
                trans += nt as u64;
                // the automaton itself against the literal enumeration of placements
                if p <= plit {
                    let lit = sbf_literal(q, dl, p, 2 * p);
                    for delta in 0..=(2 * p) as usize {
                        if lit[delta] != m[delta] {
                            machinery_error(&format!(
                                "reservation automaton ({q},{dl},{p}) disagrees with literal placements at delta={delta}: {} vs {}",
                                m[delta], lit[delta]
                            ));
                        }
                    }
                    validated += 1;
                }
                let mut subjects: Vec<(String, SupplySpec)> =
                    vec![("supply::Constrained".into(), SupplySpec::Constrained { q, dl, p })];
                if dl == p {
                    subjects.push(("supply::Periodic".into(), SupplySpec::Periodic { q, p }));
                }
                for (name, spec) in subjects {
                    let sup = spec.build();
                    let opaque = SupplySpec::Opaque(Box::new(spec.clone())).build();
                    let mut prev = 0u64;
                    for delta in 0..=h {
                        evals += 1;
                        let got = match catch(|| su(sup.provided_service(d(delta as u64)))) {
                            Ok(g) => g,
                            Err(e) => {
                                ctx.violation(&format!("{name}::provided_service#panic"), &format!("{name}({q},{dl},{p}).provided_service({delta}) panicked: {e}"), "sbf-case", json!({"spec": spec, "delta": delta}));
                                continue;
                            }
                        };
                        if m[delta] > 0 && m[delta] < delta as u64 {
                            nontrivial += 1;
                        }
                        if got != m[delta] {
                            ctx.violation(
                                &format!("{name}::provided_service#not-min-over-placements"),
                                &format!("{name}({q},{dl},{p}).provided_service({delta}) = {got} but the minimum over all budget placements is {}", m[delta]),
                                "sbf-case",
                                json!({"spec": spec, "delta": delta}),
                            );
                        }
                        if delta == 0 && got != 0 {
                            ctx.violation(&format!("{name}::provided_service#nonzero-at-zero"), &format!("{name}({q},{dl},{p}).provided_service(0) = {got}"), "sbf-case", json!({"spec": spec, "delta": 0}));
                        }
                        if delta > 0 && (got < prev || got > prev + 1) {
                            ctx.violation(&format!("{name}::provided_service#not-monotone-1-lipschitz"), &format!("{name}({q},{dl},{p}): provided_service({}) = {prev}, provided_service({delta}) = {got}", delta - 1), "sbf-case", json!({"spec": spec, "delta": delta}));
                        }
                        prev = got;
                    }
                    // service_time = exact inverse (specialised and default implementation)
                    for dem in 0..=(4 * q).min(m[h]) {
                        let want = (0..=h as u64).find(|t| m[*t as usize] >= dem).unwrap();
                        for (which, s) in [("", &sup), ("(default impl via opaque wrapper)", &opaque)] {
                            evals += 1;
                            match catch(|| du(s.service_time(crate::spec::s(dem)))) {
                                Ok(got) if got == want => {}
                                Ok(got) => ctx.violation(
                                    &format!("{name}::service_time{}#not-exact-inverse", if which.is_empty() { "" } else { "-default" }),
                                    &format!("{name}({q},{dl},{p}).service_time({dem}) {which} = {got}, least t with sbf(t) >= {dem} is {want}"),
                                    "sbf-case",
                                    json!({"spec": spec, "demand": dem, "default": !which.is_empty()}),
                                ),
                                Err(e) => ctx.violation(&format!("{name}::service_time#panic"), &format!("{name}({q},{dl},{p}).service_time({dem}) {which} panicked: {e}"), "sbf-case", json!({"spec": spec, "demand": dem})),
                            }
                        }
                    }
                    // far windows (nanosecond time bases): the model's sbf is eventually periodic,
                    // sbf(x + P) = sbf(x) + Q for x >= 2P — validated on the explored range, then
                    // used to extend the model's answer
                    let pu = p as usize;
                    if !(2 * pu..=h - pu).all(|x| m[x + pu] == m[x] + q) {
                        machinery_error(&format!("reservation automaton ({q},{dl},{p}): sbf is not periodic from 2P on"));
                    }
                    for far in [1_000_000_007u64, (1 << 40) + 1, (1 << 62) + 3] {
                        let base = 2 * p + (far - 2 * p) % p;
                        let want = m[base as usize] + (far - base) / p * q;
                        evals += 1;
                        match catch(|| su(sup.provided_service(d(far)))) {
                            Ok(got) if got == want => {}
                            Ok(got) => ctx.violation(&format!("{name}::provided_service#not-min-over-placements+far-window"), &format!("{name}({q},{dl},{p}).provided_service({far}) = {got}, the periodic extension of the minimum over all placements is {want}"), "sbf-case", json!({"spec": spec, "delta": far})),
                            Err(e) => ctx.violation(&format!("{name}::provided_service#panic"), &format!("{name}({q},{dl},{p}).provided_service({far}) panicked: {e}"), "sbf-case", json!({"spec": spec, "delta": far})),
                        }
                    }
                    for dem in [1_000_000_007u64, (1 << 40) + 1, (1 << 56) + 3] {
                        let k = (dem - m[2 * pu] - 1) / q;
                        let rest = dem - k * q;
                        let x = (0..=h).find(|x| m[*x] >= rest).unwrap() as u64;
                        let want = x + k * p;
                        for (which, s) in [("", &sup), ("(default impl via opaque wrapper)", &opaque)] {
                            evals += 1;
                            match catch(|| du(s.service_time(crate::spec::s(dem)))) {
                                Ok(got) if got == want => {}
                                Ok(got) => ctx.violation(
                                    &format!("{name}::service_time{}#not-exact-inverse+far-demand", if which.is_empty() { "" } else { "-default" }),
                                    &format!("{name}({q},{dl},{p}).service_time({dem}) {which} = {got}, least t with sbf(t) >= {dem} is {want}"),
                                    "sbf-case",
                                    json!({"spec": spec, "demand": dem, "default": !which.is_empty()}),
                                ),
                                Err(e) => ctx.violation(&format!("{name}::service_time#panic"), &format!("{name}({q},{dl},{p}).service_time({dem}) {which} panicked: {e}"), "sbf-case", json!({"spec": spec, "demand": dem})),
                            }
                        }
                    }
                    if samples.len() < 3 && p == 5 && q == 2 {
                        samples.push(json!({"reservation": spec, "automaton_states": ns, "sbf_model_prefix": &m[..12], "library_prefix": (0..12).map(|x| su(sup.provided_service(d(x)))).collect::<Vec<_>>()}));
                    }
                }
            }
        }
    }
    // sparse supplies and long demands (hundreds of ticks, many iterations of an iterative
    // inverse): every demand up to 4P for P up to 40 / 64, specialised and default implementation
    let pwide = if ctx.quick() { 40u64 } else { 64 };
    let mut ps: Vec<u64> = ((pmax + 1)..=pwide).collect();
    // very sparse reservations (blackouts of hundreds of ticks)
    ps.extend(if ctx.quick() { vec![175u64] } else { vec![100u64, 175, 250] });
    for p in ps {
        let mut qs: Vec<u64> = if p > 64 { vec![1, 2] } else { vec![1, 2, 3, p / 2, p - 1] };
        qs.sort();
        qs.dedup();
        for q in qs {
            if q == 0 || q > p {
                continue;
            }
            let mut dls = vec![q, p, (q + p) / 2];
            dls.sort();
            dls.dedup();
            for dl in dls {
                let r = Reservation { q: q as u8, dl: dl as u8, p: p as u8 };
                let h = (6 * p + 3) as usize;
                let (m, ns, nt) = r.sbf(h);
                states += ns as u64;
                trans += nt as u64;
                let pu = p as usize;
                if !(2 * pu..=h - pu).all(|x| m[x + pu] == m[x] + q) {
                    machinery_error(&format!("reservation automaton ({q},{dl},{p}): sbf is not periodic from 2P on"));
                }
                let spec = SupplySpec::Constrained { q, dl, p };
                let sup = spec.build();
                let opaque = SupplySpec::Opaque(Box::new(spec.clone())).build();
                for dem in 0..=4 * p {
                    // least t with sbf(t) >= dem, through the periodic extension when needed
                    let want = if dem <= m[h] {
                        (0..=h as u64).find(|t| m[*t as usize] >= dem).unwrap()
                    } else {
                        let k = (dem - m[2 * pu] - 1) / q;
                        let rest = dem - k * q;
                        (0..=h as u64).find(|t| m[*t as usize] >= rest).unwrap() + k * p
                    };
                    for (which, s) in [("", &sup), ("(default impl via opaque wrapper)", &opaque)] {
                        evals += 1;
                        match catch(|| du(s.service_time(crate::spec::s(dem)))) {
                            Ok(got) if got == want => {}
                            Ok(got) => ctx.violation(
                                &format!("supply::Constrained::service_time{}#not-exact-inverse", if which.is_empty() { "" } else { "-default" }),
                                &format!("supply::Constrained({q},{dl},{p}).service_time({dem}) {which} = {got}, least t with sbf(t) >= {dem} is {want}"),
                                "sbf-case",
                                json!({"spec": spec, "demand": dem, "default": !which.is_empty()}),
                            ),
                            Err(e) => ctx.violation("supply::Constrained::service_time#panic", &format!("supply::Constrained({q},{dl},{p}).service_time({dem}) {which} panicked: {e}"), "sbf-case", json!({"spec": spec, "demand": dem})),
                        }
                    }
                }
            }
        }
    }
    // beyond the automaton's parameter range (P > 255): service_time must still be the exact
    // inverse of the same object's provided_service (specialised and default implementation)
    for (q, dl, p) in [(1u64, 600u64, 600u64), (10, 1000, 1000), (10, 50, 1000), (3, 4000, 4000)] {
        let spec = SupplySpec::Constrained { q, dl, p };
        let sup = spec.build();
        let opaque = SupplySpec::Opaque(Box::new(spec.clone())).build();
        for dem in [1u64, 2, q, q + 1, 2 * q + 1, 173, 5 * q] {
            for (which, s) in [("", &sup), ("(default impl via opaque wrapper)", &opaque)] {
                evals += 1;
                let r = catch(|| {
                    let t = du(s.service_time(crate::spec::s(dem)));
                    (t, su(sup.provided_service(d(t))), if t > 0 { su(sup.provided_service(d(t - 1))) } else { 0 })
                });
                match r {
                    Ok((t, at, before)) if at >= dem && (t == 0 || before < dem) => {}
                    Ok((t, at, before)) => ctx.violation(
                        &format!("supply::Constrained::service_time{}#not-exact-inverse+sparse", if which.is_empty() { "" } else { "-default" }),
                        &format!("supply::Constrained({q},{dl},{p}).service_time({dem}) {which} = {t}, but provided_service({t}) = {at} and provided_service({}) = {before}", t.saturating_sub(1)),
                        "sbf-inverse",
                        json!({"spec": spec, "demand": dem, "default": !which.is_empty()}),
                    ),
                    Err(e) => ctx.violation("supply::Constrained::service_time#panic", &format!("supply::Constrained({q},{dl},{p}).service_time({dem}) {which} panicked: {e}"), "sbf-inverse", json!({"spec": spec, "demand": dem, "default": !which.is_empty()})),
                }
            }
        }
    }
    // algebraic laws on a larger range: Constrained(q,p,p) == Periodic(q,p); q = p == Dedicated
    for p in 1..=palg {
        for q in 1..=p {
            let c = SupplySpec::Constrained { q, dl: p, p }.build();
            let pr = SupplySpec::Periodic { q, p }.build();
            let ded = SupplySpec::Dedicated.build();
            for delta in 0..=(3 * p + 2) {
                evals += 1;
                let (a, b) = (su(c.provided_service(d(delta))), su(pr.provided_service(d(delta))));
                if a != b {
                    ctx.violation("supply::Constrained#deadline-eq-period-differs-from-periodic", &format!("Constrained({q},{p},{p}).provided_service({delta}) = {a} but Periodic({q},{p}) gives {b}"), "sbf-law", json!({"q": q, "p": p, "delta": delta}));
                }
                if q == p && a != su(ded.provided_service(d(delta))) {
                    ctx.violation("supply::Periodic#budget-eq-period-differs-from-dedicated", &format!("budget = period = {p}: provided_service({delta}) = {a}, dedicated gives {delta}"), "sbf-law", json!({"q": q, "p": p, "delta": delta}));
                }
            }
            for dem in 0..=(3 * q) {
                evals += 1;
                let (a, b) = (du(c.service_time(s(dem))), du(pr.service_time(s(dem))));
                if a != b {
                    ctx.violation("supply::Constrained#deadline-eq-period-differs-from-periodic", &format!("Constrained({q},{p},{p}).service_time({dem}) = {a} but Periodic({q},{p}) gives {b}"), "sbf-law", json!({"q": q, "p": p, "demand": dem}));
                }
                if q == p && a != dem {
                    ctx.violation("supply::Periodic#budget-eq-period-differs-from-dedicated", &format!("budget = period = {p}: service_time({dem}) = {a}"), "sbf-law", json!({"q": q, "p": p, "demand": dem}));
                }
            }
        }
    }
    let cov = json!({
        "states": states,
        "transitions": trans,
        "traces_validated_against_impl": validated,
        "samples": samples,
        "evaluations": evals,
        "distinct_nontrivial": nontrivial,
        "rule": format!("every (Q,D,P) with P<={pmax}: reservation automaton explored, min service over all paths of every length <= 4P+3 compared with provided_service; service_time vs exact inverse for demands <= 4Q (specialised and default implementation); every demand up to 4P for sparse reservations with P up to 40/64; three far windows (up to 2^62) and three far demands (up to 2^56) against the periodic extension of the model sbf (periodicity validated on the explored range); laws for P<={palg}; non-trivial = window lengths whose minimum service is strictly between 0 and delta"),
        "automata_validated_against_literal_placements": validated,
        "exhaustive": true,
    });
    (
        "model_checking".into(),
        cov,
        vec![
            "reservation contract: exactly Q units in each period, all within the first D ticks of the period, any placement; observation may start at any phase".into(),
            format!("automaton validated against literal enumeration of all placements over three periods for P<={plit}"),
        ],
    )
}

// ------------------------------------------------------------------------------------------

fn check_model(
    ctx: &mut Ctx,
    name: &str,
    spec: &ArrSpec,
    aut: &Aut,
    h: usize,
    exact: bool,
    st: &mut (u64, u64, u64, u64),
    samples: &mut Vec<Value>,
) {
    let t0 = std::time::Instant::now();
    let (m, ns, nt, cap) = aut.max_events(h);
    if t0.elapsed().as_secs_f64() > 20.0 {
        ctx.note(format!("slow automaton ({:.0} s, {} states): {:?}", t0.elapsed().as_secs_f64(), ns, spec));
    }
    st.0 += ns as u64;
    st.1 += nt as u64;
    if cap {
        ctx.note(format!("burst cap hit for {:?}", spec));
    }
    let ab = match catch(|| spec.build()) {
        Ok(a) => a,
        Err(e) => {
            ctx.violation(&format!("{name}#constructor-panic"), &format!("constructing {:?} panicked: {e}", spec), "arr-case", json!({"spec": spec}));
            return;
        }
    };
    let mut prev = 0usize;
    for delta in 0..=h {
        st.2 += 1;
        let e = match catch(|| ab.number_arrivals(d(delta as u64))) {
            Ok(e) => e,
            Err(err) => {
                ctx.violation(&format!("{name}::number_arrivals#panic"), &format!("{:?}.number_arrivals({delta}) panicked: {err}", spec), "arr-case", json!({"spec": spec, "delta": delta}));
                return;
            }
        };
        if m[delta] > 1 {
            st.3 += 1;
        }
        if delta == 0 && e != 0 {
            ctx.violation(&format!("{name}::number_arrivals#nonzero-at-zero"), &format!("{:?}.number_arrivals(0) = {e}", spec), "arr-case", json!({"spec": spec, "delta": 0}));
        }
        if e < prev {
            ctx.violation(&format!("{name}::number_arrivals#not-monotone"), &format!("{:?}: number_arrivals({}) = {prev} > number_arrivals({delta}) = {e}", spec, delta - 1), "arr-case", json!({"spec": spec, "delta": delta}));
        }
        prev = e;
        if m[delta] > e as u64 {
            ctx.violation(
                &format!("{name}::number_arrivals#undercounts"),
                &format!("{:?}.number_arrivals({delta}) = {e} but an admissible event sequence has {} events in a window of that length", spec, m[delta]),
                "arr-case",
                json!({"spec": spec, "delta": delta}),
            );
        }
        if exact && m[delta] < e as u64 {
            ctx.violation(
                &format!("{name}::number_arrivals#not-attained"),
                &format!("{:?}.number_arrivals({delta}) = {e} but no admissible sequence has more than {} events in such a window", spec, m[delta]),
                "arr-case",
                json!({"spec": spec, "delta": delta}),
            );
        }
    }
    if exact {
        // sub-additivity
        for a in 0..=h / 2 {
            for b in 0..=h / 2 {
                let (x, y, z) = (ab.number_arrivals(d(a as u64)), ab.number_arrivals(d(b as u64)), ab.number_arrivals(d((a + b) as u64)));
                if z > x + y {
                    ctx.violation(&format!("{name}::number_arrivals#not-subadditive"), &format!("{:?}: eta({}) = {z} > eta({a}) + eta({b}) = {}", spec, a + b, x + y), "arr-case", json!({"spec": spec, "delta": a + b}));
                }
            }
        }
    }
    {
        // far windows: max_events of a (jittered) periodic / sporadic process is eventually
        // periodic, max(x + T) = max(x) + 1; validated on the explored range, then extended
        fn period_of(s: &ArrSpec) -> Option<u64> {
            match s {
                ArrSpec::Periodic { t } | ArrSpec::Sporadic { t, .. } | ArrSpec::CurveFromPeriodic { t } | ArrSpec::CurveFromSporadic { t, .. } | ArrSpec::SporadicFromPeriodic { t } => Some(*t),
                ArrSpec::Jitter { inner, .. } | ArrSpec::Propagated { inner, .. } => period_of(inner),
                _ => None,
            }
        }
        if let Some(t) = period_of(spec) {
            let tu = t as usize;
            if h >= 3 * tu && (h - 2 * tu..=h - tu).all(|x| m[x + tu] == m[x] + 1) {
                let lo = (h - 2 * tu) as u64;
                for far in [461u64, 997, 5003, 500 * t + 1, 1_000_000_007u64, (1 << 40) + 1, (1 << 60) + 3] {
                    if far <= lo {
                        continue;
                    }
                    let base = lo + (far - lo) % t;
                    let want = m[base as usize] + (far - base) / t;
                    st.2 += 1;
                    match catch(|| ab.number_arrivals(d(far)) as u64) {
                        Ok(e) if e == want || (!exact && e > want) => {}
                        Ok(e) => ctx.violation(
                            &format!("{name}::number_arrivals#{}+far-window", if e < want { "undercounts" } else { "not-attained" }),
                            &format!("{:?}.number_arrivals({far}) = {e}, the periodic extension of the maximum over all admissible sequences is {want}", spec),
                            "arr-far",
                            json!({"spec": spec, "delta": far, "want": want}),
                        ),
                        Err(err) => ctx.violation(&format!("{name}::number_arrivals#panic"), &format!("{:?}.number_arrivals({far}) panicked: {err}", spec), "arr-far", json!({"spec": spec, "delta": far, "want": want})),
                    }
                }
            }
        }
    }
    if samples.len() < 4 && ns > 3 && m[h] > 3 {
        samples.push(json!({"model": spec, "automaton_states": ns, "automaton_transitions": nt,
            "max_events_prefix": &m[..10.min(h)], "number_arrivals_prefix": (0..10.min(h)).map(|x| ab.number_arrivals(d(x as u64))).collect::<Vec<_>>()}));
    }
}

fn all_vectors(len: usize, maxv: u8, f: &mut dyn FnMut(&[u8])) {
    let mut v = vec![0u8; len];
    loop {
        f(&v);
        let mut i = 0;
        loop {
            if i == len {
                return;
            }
            if v[i] < maxv {
                v[i] += 1;
                break;
            }
            v[i] = 0;
            i += 1;
        }
    }
}

fn validate_automata(ctx: &Ctx) -> u64 {
    let len = if ctx.quick() { 7 } else { 9 };
    let mut n = 0u64;
    let mut check = |aut: &Aut, lit: &dyn Fn(&[u8]) -> bool, what: &str, len: usize| {
        all_vectors(len, 2, &mut |v| {
            n += 1;
            if aut.accepts(v) != lit(v) {
                machinery_error(&format!("arrival automaton {what} disagrees with its literal definition on {:?}", v));
            }
        });
    };
    for (t, j) in [(1i64, 0i64), (2, 0), (3, 1), (3, 4), (4, 9), (2, 5), (5, 2)] {
        let a = Aut::Sporadic { t: t as i16, j: j as i16 };
        check(&a, &|v| literal::sporadic(v, t, j), &format!("Sporadic({t},{j})"), len);
    }
    for t in 1..=4i64 {
        let a = Aut::Periodic { t: t as i16 };
        check(&a, &|v| literal::periodic(v, t), &format!("Periodic({t})"), len);
    }
    for dm in [vec![3i64], vec![0, 4], vec![1, 2, 6], vec![0, 0, 5], vec![2, 2, 3, 7], vec![2, 5, 5]] {
        let a = Aut::Dmin { d: dm.iter().map(|x| *x as i16).collect() };
        check(&a, &|v| literal::dmin(v, &dm), &format!("Dmin({:?})", dm), len);
    }
    // token construction for added jitter (arrivals at instants >= 0)
    let jl = if ctx.quick() { 6 } else { 7 };
    for (dm, j) in [(vec![3i64], 2i64), (vec![1, 4], 1), (vec![0, 5], 2), (vec![2, 4, 7], 3)] {
        let a = Aut::Jitter { inner: Box::new(Aut::Dmin { d: dm.iter().map(|x| *x as i16).collect() }), j: j as i16 };
        check(&a, &|v| literal::jittered(v, j, &|arr| arr.iter().all(|x| *x >= 0) && literal::dmin_times(arr, &dm)), &format!("Jitter(Dmin({:?}),{j})", dm), jl);
    }
    for (t, j0, j) in [(3i64, 0i64, 2i64), (4, 1, 3), (2, 0, 5)] {
        let a = Aut::Jitter { inner: Box::new(Aut::Sporadic { t: t as i16, j: j0 as i16 }), j: j as i16 };
        // token construction == single-counter collapse
        let b = Aut::Sporadic { t: t as i16, j: (j0 + j) as i16 };
        let (ma, ..) = a.max_events(30);
        let (mb, ..) = b.max_events(30);
        if ma != mb {
            machinery_error(&format!("jitter token automaton over Sporadic({t},{j0})+{j} disagrees with Sporadic({t},{})", j0 + j));
        }
        n += 31;
    }
    n
}

pub fn run_c10(ctx: &mut Ctx) -> (String, Value, Vec<String>) {
    crate::util::silence_panics();
    let quick = ctx.quick();
    let validated = validate_automata(ctx);
    let h = if quick { 36 } else { 60 };
    let mut st = (0u64, 0u64, 0u64, 0u64);
    let mut samples = vec![];
    let mut models = 0u64;
    // sporadic / periodic: attained and sub-additive
    let tmax = if quick { 6 } else { 9 };
    for t in 1..=tmax {
        for j in 0..=2 * t {
            let spec = ArrSpec::Sporadic { t, j };
            check_model(ctx, "arrival::Sporadic", &spec, &Aut::of(&spec).unwrap(), h, true, &mut st, &mut samples);
            models += 1;
        }
        let spec = ArrSpec::Periodic { t };
        check_model(ctx, "arrival::Periodic", &spec, &Aut::Periodic { t: t as i16 }, h, true, &mut st, &mut samples);
        // also bounds the sporadic reading of a periodic task
        check_model(ctx, "arrival::Periodic", &spec, &Aut::Sporadic { t: t as i16, j: 0 }, h, true, &mut st, &mut samples);
        let spec = ArrSpec::SporadicFromPeriodic { t };
        check_model(ctx, "arrival::Sporadic::from(Periodic)", &spec, &Aut::of(&spec).unwrap(), h, true, &mut st, &mut samples);
        // the same processes converted into delta-min curves (upper bounds, not necessarily exact)
        let spec = ArrSpec::CurveFromPeriodic { t };
        check_model(ctx, "Curve::from(Periodic)", &spec, &Aut::Sporadic { t: t as i16, j: 0 }, h, false, &mut st, &mut samples);
        for j in [0, 1, t, 2 * t + 1] {
            let spec = ArrSpec::CurveFromSporadic { t, j };
            check_model(ctx, "Curve::from(Sporadic)", &spec, &Aut::Sporadic { t: t as i16, j: j as i16 }, h, false, &mut st, &mut samples);
            models += 1;
        }
        models += 4;
    }
    {
        // larger parameters (the automata stay small: T + J states)
        let big: Vec<(u64, u64)> = if quick { vec![(13, 40), (27, 7), (50, 120)] } else { vec![(13, 0), (13, 40), (27, 7), (27, 120), (50, 49), (50, 333), (97, 100)] };
        for (t, j) in big {
            let spec = ArrSpec::Sporadic { t, j };
            check_model(ctx, "arrival::Sporadic", &spec, &Aut::of(&spec).unwrap(), 400, true, &mut st, &mut samples);
            let spec = ArrSpec::Jitter { inner: Box::new(ArrSpec::Periodic { t }), j };
            check_model(ctx, "clone_with_jitter", &spec, &Aut::of(&spec).unwrap(), 400, true, &mut st, &mut samples);
            models += 2;
        }
        let bigpf: Vec<Vec<u64>> = if quick { vec![vec![0, 17, 30], vec![3, 21], vec![1, 2, 4, 6, 9, 11]] } else { vec![vec![0, 17, 30], vec![5, 5, 21, 22], vec![3, 21], vec![0, 0, 12, 26], vec![7, 14, 21, 28], vec![1, 2, 4, 6, 9, 11], vec![2, 4, 9, 13, 20, 25, 33, 40]] };
        for pf in bigpf {
            let spec = ArrSpec::Curve { dmin: pf.clone() };
            let aut = Aut::of(&spec).unwrap();
            check_model(ctx, "arrival::Curve", &spec, &aut, 300, false, &mut st, &mut samples);
            if is_superadditive(&pf) {
                let spec = ArrSpec::ExtCurve { dmin: pf.clone() };
                check_model(ctx, "arrival::ExtrapolatingCurve", &spec, &aut, 300, false, &mut st, &mut samples);
            }
            if pf.len() <= 3 {
                // (the token automaton over long prefixes with large distances is too big)
                let spec = ArrSpec::Propagated { inner: Box::new(ArrSpec::Curve { dmin: pf.clone() }), j: 4 };
                check_model(ctx, "arrival::Propagated", &spec, &Aut::of(&spec).unwrap(), 80, false, &mut st, &mut samples);
                models += 1;
            }
            models += 2;
        }
    }
    // delta-min prefixes: every non-decreasing prefix (not only super-additive ones)
    let prefixes = nondecreasing_prefixes(if quick { 3 } else { 4 }, 6);
    for pf in &prefixes {
        let spec = ArrSpec::Curve { dmin: pf.clone() };
        let aut = Aut::of(&spec).unwrap();
        check_model(ctx, "arrival::Curve", &spec, &aut, h, false, &mut st, &mut samples);
        models += 1;
        if pf.len() >= 2 && is_superadditive(pf) {
            let spec = ArrSpec::ExtCurve { dmin: pf.clone() };
            check_model(ctx, "arrival::ExtrapolatingCurve", &spec, &aut, h, false, &mut st, &mut samples);
            models += 1;
        }
    }
    // curves collected from an iterator (monotone closure of the given distances), also with
    // equal neighbouring entries
    for pf in [vec![0u64, 0, 5], vec![3, 1, 5, 4], vec![0, 4, 4, 8], vec![2, 2], vec![0, 0, 0, 0, 6, 7], vec![1, 2, 6]] {
        let spec = ArrSpec::CurveCollected { dmin: pf.clone() };
        check_model(ctx, "arrival::Curve::from_iter", &spec, &Aut::of(&spec).unwrap(), h, false, &mut st, &mut samples);
        let spec = ArrSpec::Jitter { inner: Box::new(spec), j: 2 };
        check_model(ctx, "arrival::Curve::from_iter", &spec, &Aut::of(&spec).unwrap(), h.min(40), false, &mut st, &mut samples);
        models += 2;
    }
    // added jitter: Propagated / clone_with_jitter over every kind of model
    let jmax = if quick { 3 } else { 5 };
    let mut bases: Vec<ArrSpec> = vec![
        ArrSpec::Periodic { t: 3 },
        ArrSpec::Periodic { t: 1 },
        ArrSpec::Sporadic { t: 4, j: 0 },
        ArrSpec::Sporadic { t: 3, j: 5 },
        ArrSpec::Sporadic { t: 2, j: 1 },
        ArrSpec::Never,
    ];
    for pf in prefixes.iter().step_by(if quick { 9 } else { 4 }) {
        bases.push(ArrSpec::Curve { dmin: pf.clone() });
        if pf.len() >= 2 && is_superadditive(pf) {
            bases.push(ArrSpec::ExtCurve { dmin: pf.clone() });
        }
    }
    // superpositions under added jitter (the sparser component first and second)
    bases.push(ArrSpec::SumOf(Box::new(ArrSpec::Periodic { t: 9 }), Box::new(ArrSpec::Sporadic { t: 3, j: 1 })));
    bases.push(ArrSpec::SumOf(Box::new(ArrSpec::Sporadic { t: 2, j: 0 }), Box::new(ArrSpec::Periodic { t: 7 })));
    bases.push(ArrSpec::Sum(vec![ArrSpec::Periodic { t: 8 }, ArrSpec::Curve { dmin: vec![0, 3] }]));
    bases.push(ArrSpec::Slice(vec![ArrSpec::Periodic { t: 6 }, ArrSpec::Sporadic { t: 3, j: 2 }]));
    bases.push(ArrSpec::Sum(vec![ArrSpec::Sporadic { t: 11, j: 0 }, ArrSpec::Sporadic { t: 5, j: 2 }, ArrSpec::Periodic { t: 4 }]));
    bases.push(ArrSpec::Prefix { horizon: 8, steps: vec![(1, 1), (3, 2), (7, 3)] });
    bases.push(ArrSpec::Prefix { horizon: 5, steps: vec![(1, 2), (4, 3)] });
    for b in &bases {
        if let ArrSpec::Prefix { .. } = b {
            check_model(ctx, "arrival::ArrivalCurvePrefix", b, &Aut::of(b).unwrap(), h, false, &mut st, &mut samples);
            models += 1;
        }
        for j in 1..=jmax {
            for (nm, spec) in [
                ("clone_with_jitter", ArrSpec::Jitter { inner: Box::new(b.clone()), j }),
                ("arrival::Propagated", ArrSpec::Propagated { inner: Box::new(b.clone()), j }),
            ] {
                let aut = Aut::of(&spec).unwrap();
                let exact = matches!(b, ArrSpec::Periodic { .. } | ArrSpec::Sporadic { .. }) && nm == "clone_with_jitter";
                check_model(ctx, nm, &spec, &aut, h.min(40), exact, &mut st, &mut samples);
                models += 1;
            }
        }
        // adding jitter a and then b is the same as adding a+b
        for a in 0..=jmax {
            for bb in 0..=jmax {
                let two = ArrSpec::Jitter { inner: Box::new(ArrSpec::Jitter { inner: Box::new(b.clone()), j: a }), j: bb };
                let one = ArrSpec::Jitter { inner: Box::new(b.clone()), j: a + bb };
                let r = catch(|| {
                    let (x, y) = (two.build(), one.build());
                    (0..=h as u64).find(|dl| x.number_arrivals(d(*dl)) != y.number_arrivals(d(*dl)))
                });
                st.2 += h as u64 + 1;
                match r {
                    Ok(None) => {}
                    Ok(Some(dl)) => ctx.violation("clone_with_jitter#a-then-b-differs-from-a-plus-b", &format!("{:?}: jitter {a} then {bb} differs from jitter {} at delta={dl}", b, a + bb), "arr-case", json!({"spec": two, "delta": dl})),
                    Err(e) => ctx.violation("clone_with_jitter#panic", &format!("{:?} jitter {a} then {bb}: panic {e}", b), "arr-case", json!({"spec": two})),
                }
            }
        }
    }
    // superposition: Vec / sum_of == sum of components, and product automaton
    let parts: Vec<ArrSpec> = vec![
        ArrSpec::Sporadic { t: 3, j: 2 },
        ArrSpec::Periodic { t: 4 },
        ArrSpec::Curve { dmin: vec![0, 5] },
        ArrSpec::Curve { dmin: vec![2, 2, 6] },
        ArrSpec::ExtCurve { dmin: vec![1, 4] },
        ArrSpec::Never,
        ArrSpec::Jitter { inner: Box::new(ArrSpec::Curve { dmin: vec![3, 7] }), j: 2 },
    ];
    for a in &parts {
        for b in &parts {
            for (nm, spec) in [
                ("Vec<ArrivalBound>", ArrSpec::Sum(vec![a.clone(), b.clone()])),
                ("[ArrivalBound]", ArrSpec::Slice(vec![a.clone(), b.clone()])),
                ("arrival::sum_of", ArrSpec::SumOf(Box::new(a.clone()), Box::new(b.clone()))),
            ] {
                let (x, y, z) = (a.build(), b.build(), spec.build());
                for dl in 0..=h as u64 {
                    st.2 += 1;
                    if z.number_arrivals(d(dl)) != x.number_arrivals(d(dl)) + y.number_arrivals(d(dl)) {
                        ctx.violation(&format!("{nm}::number_arrivals#not-sum-of-components"), &format!("{:?}.number_arrivals({dl}) is not the sum of its components", spec), "arr-case", json!({"spec": spec, "delta": dl}));
                    }
                }
                if let Some(aut) = Aut::of(&spec) {
                    check_model(ctx, nm, &spec, &aut, 24, false, &mut st, &mut samples);
                    models += 1;
                }
            }
        }
    }
    let cov = json!({
        "states": st.0,
        "transitions": st.1,
        "traces_validated_against_impl": validated,
        "samples": samples,
        "evaluations": st.2,
        "distinct_nontrivial": st.3,
        "models": models,
        "rule": format!("every model of the box: automaton of its documented process explored, max events over all paths per window length 0..={h} (DP over the state graph) compared with number_arrivals; for (jittered) periodic / sporadic models additionally three far windows (up to 2^60) against the periodic extension of the model maximum; non-trivial = window lengths admitting more than one event"),
        "automaton_release_vectors_validated_against_literal_definitions": validated,
        "exhaustive": true,
    });
    (
        "model_checking".into(),
        cov,
        vec![
            "admissible sequences as documented: sporadic/periodic arrivals with per-event jitter; sequences respecting a delta-min prefix; delayed by at most the added jitter; superposition".into(),
            "ArrivalCurvePrefix: sequences whose window counts respect the steps up to the horizon (delta-min constraints derived from the steps, plus 'more than eta(horizon) events need more than the horizon')".into(),
            "automata validated against the literal pairwise-distance definitions on every 0/1/2-valued release vector up to the stated length".into(),
        ],
    )
}

pub fn replay_sbf_inverse(case: &Value) -> bool {
    let spec: SupplySpec = serde_json::from_value(case["spec"].clone()).unwrap();
    let dem = case["demand"].as_u64().unwrap();
    let sup = spec.build();
    let s_ = if case["default"].as_bool().unwrap_or(false) { SupplySpec::Opaque(Box::new(spec.clone())).build() } else { spec.build() };
    let r = catch(|| {
        let t = du(s_.service_time(s(dem)));
        (t, su(sup.provided_service(d(t))), if t > 0 { su(sup.provided_service(d(t - 1))) } else { 0 })
    });
    println!("replay: (service_time, sbf there, sbf one tick earlier) = {:?} for demand {dem}", r);
    match r {
        Ok((t, at, before)) => !(at >= dem && (t == 0 || before < dem)),
        Err(_) => true,
    }
}

pub fn replay_sbf(case: &Value) -> bool {
    // re-evaluate one (spec, delta | demand) point against the automaton
    if case.get("spec").is_none() {
        let (q, p) = (case["q"].as_u64().unwrap(), case["p"].as_u64().unwrap());
        let c = SupplySpec::Constrained { q, dl: p, p }.build();
        let pr = SupplySpec::Periodic { q, p }.build();
        if let Some(delta) = case.get("delta").and_then(|x| x.as_u64()) {
            let (a, b) = (su(c.provided_service(d(delta))), su(pr.provided_service(d(delta))));
            println!("replay: constrained {a} periodic {b} dedicated {delta}");
            return a != b || (q == p && a != delta);
        }
        let dem = case["demand"].as_u64().unwrap();
        let (a, b) = (du(c.service_time(s(dem))), du(pr.service_time(s(dem))));
        println!("replay: constrained {a} periodic {b}");
        return a != b || (q == p && a != dem);
    }
    let spec: SupplySpec = serde_json::from_value(case["spec"].clone()).unwrap();
    let (q, dl, p) = spec.qdp();
    let r = Reservation { q: q as u8, dl: dl as u8, p: p as u8 };
    let (m, ..) = r.sbf((6 * p + 10) as usize);
    if let Some(delta) = case.get("delta").and_then(|x| x.as_u64()) {
        let got = catch(|| su(spec.build().provided_service(d(delta))));
        // beyond the explored range: periodic extension sbf(x + P) = sbf(x) + Q (x >= 2P)
        let want = if (delta as usize) < m.len() {
            m[delta as usize]
        } else {
            let base = 2 * p + (delta - 2 * p) % p;
            m[base as usize] + (delta - base) / p * q
        };
        println!("replay: library {:?}, min over placements {}", got, want);
        return got != Ok(want);
    }
    let dem = case["demand"].as_u64().unwrap();
    let want = if dem <= m[m.len() - 1] {
        (0..m.len() as u64).find(|t| m[*t as usize] >= dem).unwrap()
    } else {
        let k = (dem - m[2 * p as usize] - 1) / q;
        let rest = dem - k * q;
        (0..m.len() as u64).find(|t| m[*t as usize] >= rest).unwrap() + k * p
    };
    let sup = if case["default"].as_bool().unwrap_or(false) { SupplySpec::Opaque(Box::new(spec.clone())).build() } else { spec.build() };
    let got = catch(|| du(sup.service_time(s(dem))));
    println!("replay: library {:?}, exact inverse {want}", got);
    got != Ok(want)
}

pub fn replay_arr(case: &Value) -> bool {
    let spec: ArrSpec = serde_json::from_value(case["spec"].clone()).unwrap();
    if let Some(want) = case.get("want").and_then(|x| x.as_u64()) {
        // far window: the expected value is the periodic extension recorded in the artefact
        let far = case["delta"].as_u64().unwrap();
        let got = catch(|| spec.build().number_arrivals(d(far)) as u64);
        println!("replay: library {:?}, periodic extension of the model maximum {want}", got);
        return got != Ok(want);
    }
    let h = case.get("delta").and_then(|x| x.as_u64()).unwrap_or(30) as usize + 2;
    let aut = match Aut::of(&spec) {
        Some(a) => a,
        None => return false,
    };
    let (m, ..) = aut.max_events(h);
    let r = catch(|| {
        let ab = spec.build();
        (0..=h).map(|x| ab.number_arrivals(d(x as u64)) as u64).collect::<Vec<_>>()
    });
    println!("replay: max events {:?}\nreplay: library    {:?}", m, r);
    match r {
        Ok(v) => (0..=h).any(|x| m[x] > v[x]) || v[0] != 0 || v.windows(2).any(|w| w[0] > w[1]),
        Err(_) => true,
    }
}
