//! C11: steps_iter yields exactly the points where a bound increases.

use crate::spec::*;
use crate::util::{with_timeout, Ctx};
use response_time_analysis::demand::{Aggregate, RequestBound, Slice};
use serde::{Deserialize, Serialize};
use serde_json::{json, Value};
use std::rc::Rc;

/// Request-bound compositions.
#[derive(Clone, Debug, Serialize, Deserialize, PartialEq, Eq, Hash)]
pub enum RbSpec {
    Rbf(ArrSpec, CostSpec),
    Aggregate(Vec<RbSpec>),
    /// `Slice::of(&[..])` over the built components
    Slice(Vec<RbSpec>),
    /// `Box<dyn RequestBound>` around the inner one
    Boxed(Box<RbSpec>),
}

impl RbSpec {
    /// evaluate `f` on the built object (slices borrow, so the object cannot be returned)
    pub fn with<T>(&self, f: &mut dyn FnMut(&dyn RequestBound) -> T) -> T {
        match self {
            RbSpec::Rbf(a, c) => f(&rbf(a, c)),
            RbSpec::Aggregate(v) => {
                let parts: Vec<Rc<dyn RequestBound>> = v.iter().map(|x| x.rc()).collect();
                f(&Aggregate::new(parts))
            }
            RbSpec::Slice(v) => {
                let parts: Vec<Rc<dyn RequestBound>> = v.iter().map(|x| x.rc()).collect();
                f(&Slice::of(&parts[..]))
            }
            RbSpec::Boxed(i) => {
                let b: Box<dyn RequestBound> = Box::new(i.rc());
                f(&b)
            }
        }
    }
    pub fn rc(&self) -> Rc<dyn RequestBound> {
        match self {
            RbSpec::Rbf(a, c) => Rc::new(rbf(a, c)),
            RbSpec::Aggregate(v) => Rc::new(Aggregate::new(v.iter().map(|x| x.rc()).collect::<Vec<_>>())),
            // a Slice borrows; for nesting purposes use the equivalent aggregate of boxed parts
            RbSpec::Slice(v) => Rc::new(Aggregate::new(
                v.iter().map(|x| Box::new(x.rc()) as Box<dyn RequestBound>).collect::<Vec<_>>(),
            )),
            RbSpec::Boxed(i) => {
                let b: Box<dyn RequestBound> = Box::new(i.rc());
                Rc::new(b)
            }
        }
    }
    pub fn arrivals(&self) -> Vec<&ArrSpec> {
        match self {
            RbSpec::Rbf(a, _) => vec![a],
            RbSpec::Aggregate(v) | RbSpec::Slice(v) => v.iter().flat_map(|x| x.arrivals()).collect(),
            RbSpec::Boxed(i) => i.arrivals(),
        }
    }
}

pub fn type_name(s: &ArrSpec) -> &'static str {
    match s {
        ArrSpec::Never => "arrival::Never",
        ArrSpec::Periodic { .. } => "arrival::Periodic",
        ArrSpec::Sporadic { .. } | ArrSpec::SporadicFromPeriodic { .. } => "arrival::Sporadic",
        ArrSpec::Curve { .. }
        | ArrSpec::CurveFromBound { .. }
        | ArrSpec::CurveFromBoundUntil { .. }
        | ArrSpec::CurveFromPrefix { .. }
        | ArrSpec::CurveFromPeriodic { .. }
        | ArrSpec::CurveFromSporadic { .. }
        | ArrSpec::CurveFromTrace { .. }
        | ArrSpec::CurveExtrapolated { .. }
        | ArrSpec::CurveCollected { .. } => "arrival::Curve",
        ArrSpec::ExtCurve { .. } => "arrival::ExtrapolatingCurve",
        ArrSpec::Prefix { .. } | ArrSpec::PrefixFromBoundUntil { .. } => "arrival::ArrivalCurvePrefix",
        ArrSpec::Jitter { inner, .. } => match &**inner {
            ArrSpec::Periodic { .. } | ArrSpec::Sporadic { .. } | ArrSpec::SporadicFromPeriodic { .. } => "arrival::Sporadic",
            ArrSpec::Never => "arrival::Never",
            ArrSpec::Sum(_) | ArrSpec::Slice(_) => "Vec<ArrivalBound>",
            ArrSpec::SumOf(..) => "arrival::sum_of",
            _ => "arrival::Propagated",
        },
        ArrSpec::Propagated { .. } => "arrival::Propagated",
        ArrSpec::Sum(_) => "Vec<ArrivalBound>",
        ArrSpec::Slice(_) => "[ArrivalBound]",
        ArrSpec::SumOf(..) => "arrival::sum_of",
        ArrSpec::OpaqueDefault { .. } => "ArrivalBound::steps_iter(default)",
    }
}

pub fn contains_prefix(s: &ArrSpec) -> bool {
    match s {
        ArrSpec::Prefix { .. } | ArrSpec::PrefixFromBoundUntil { .. } => true,
        ArrSpec::Jitter { inner, .. } | ArrSpec::Propagated { inner, .. } => contains_prefix(inner),
        ArrSpec::Sum(v) | ArrSpec::Slice(v) => v.iter().any(contains_prefix),
        ArrSpec::SumOf(a, b) => contains_prefix(a) || contains_prefix(b),
        _ => false,
    }
}

#[derive(Debug)]
pub struct StepDiff {
    pub symptom: &'static str,
    pub detail: String,
}

/// compare the yielded steps (<= h) with the brute-force increase points of `f`
pub fn diff_steps(f: &[u64], got: &[u64], h: u64) -> Option<StepDiff> {
    let want: Vec<u64> = (1..=h).filter(|x| f[*x as usize - 1] < f[*x as usize]).collect();
    if got.first() == Some(&0) {
        return Some(StepDiff { symptom: "yields-zero", detail: format!("first item is 0; steps {:?}", &got[..got.len().min(8)]) });
    }
    if got.windows(2).any(|w| w[0] >= w[1]) {
        return Some(StepDiff { symptom: "not-strictly-increasing", detail: format!("steps {:?}", &got[..got.len().min(12)]) });
    }
    if let Some(m) = want.iter().find(|x| !got.contains(x)) {
        return Some(StepDiff { symptom: "missing-step", detail: format!("bound increases at delta={m} (from {} to {}) but steps_iter yields {:?}", f[*m as usize - 1], f[*m as usize], &got[..got.len().min(10)]) });
    }
    if let Some(m) = got.iter().find(|x| !want.contains(x)) {
        return Some(StepDiff { symptom: "spurious-step", detail: format!("steps_iter yields delta={m} but the bound does not increase there ({} -> {}); steps {:?}", f[*m as usize - 1], f[*m as usize], &got[..got.len().min(10)]) });
    }
    None
}

pub fn leaf_menu(quick: bool) -> Vec<ArrSpec> {
    let mut v = vec![ArrSpec::Never];
    let tmax = if quick { 5 } else { 7 };
    for t in 1..=tmax {
        v.push(ArrSpec::Periodic { t });
        v.push(ArrSpec::SporadicFromPeriodic { t });
        for j in [0u64, 1, 2, 5, 7, 15] {
            v.push(ArrSpec::Sporadic { t, j });
        }
    }
    for pf in nondecreasing_prefixes(if quick { 3 } else { 4 }, 6) {
        v.push(ArrSpec::Curve { dmin: pf.clone() });
        if pf.len() >= 2 && is_superadditive(&pf) {
            v.push(ArrSpec::ExtCurve { dmin: pf.clone() });
            v.push(ArrSpec::CurveExtrapolated { dmin: pf.clone(), horizon: 23 });
        }
    }
    v.push(ArrSpec::ExtCurve { dmin: vec![4] });
    v.push(ArrSpec::CurveCollected { dmin: vec![3, 1, 5, 4] });
    for (h, st) in [(8u64, vec![(1u64, 1usize), (3, 2), (7, 3)]), (5, vec![(1, 2), (4, 3)]), (6, vec![(1, 1)]), (4, vec![(1, 1), (4, 2)])] {
        v.push(ArrSpec::Prefix { horizon: h, steps: st.clone() });
        v.push(ArrSpec::CurveFromPrefix { inner: Box::new(ArrSpec::Prefix { horizon: h, steps: st }) });
    }
    for (times, k) in [(vec![0u64, 0, 5, 5], 3usize), (vec![0, 2, 3, 9, 9, 10], 4), (vec![1, 4, 8, 12], 2), (vec![0, 0, 0, 7, 8], 5)] {
        v.push(ArrSpec::CurveFromTrace { times, prefix_jobs: k });
    }
    for (t, j) in [(5u64, 0u64), (3, 4), (2, 6), (4, 1)] {
        let src = ArrSpec::Sporadic { t, j };
        for n in [2usize, 4, 7] {
            v.push(ArrSpec::CurveFromBound { inner: Box::new(src.clone()), njobs: n });
        }
        for h in [1u64, 6, 13] {
            v.push(ArrSpec::CurveFromBoundUntil { inner: Box::new(src.clone()), horizon: h });
            v.push(ArrSpec::PrefixFromBoundUntil { inner: Box::new(src.clone()), horizon: h });
        }
        v.push(ArrSpec::CurveFromSporadic { t, j });
    }
    v.push(ArrSpec::CurveFromPeriodic { t: 4 });
    v.push(ArrSpec::CurveFromBound { inner: Box::new(ArrSpec::Sum(vec![ArrSpec::Periodic { t: 5 }, ArrSpec::Periodic { t: 5 }])), njobs: 4 });
    v.push(ArrSpec::PrefixFromBoundUntil { inner: Box::new(ArrSpec::Curve { dmin: vec![0, 3, 7] }), horizon: 10 });
    v
}

pub fn menu(quick: bool) -> Vec<ArrSpec> {
    let leaves = leaf_menu(quick);
    let mut v = leaves.clone();
    // one level of jitter
    for l in &leaves {
        for j in [0u64, 1, 3, 8] {
            v.push(ArrSpec::Jitter { inner: Box::new(l.clone()), j });
            if j > 0 {
                v.push(ArrSpec::Propagated { inner: Box::new(l.clone()), j });
            }
        }
    }
    // two levels and aggregates on a thinner set
    let thin: Vec<ArrSpec> = leaves.iter().step_by(if quick { 7 } else { 3 }).cloned().collect();
    for l in &thin {
        for (a, b) in [(1u64, 2u64), (4, 1), (0, 5)] {
            v.push(ArrSpec::Jitter { inner: Box::new(ArrSpec::Jitter { inner: Box::new(l.clone()), j: a }), j: b });
            v.push(ArrSpec::Propagated { inner: Box::new(ArrSpec::Jitter { inner: Box::new(l.clone()), j: a }), j: b });
        }
    }
    for (i, a) in thin.iter().enumerate() {
        for (k, b) in thin.iter().enumerate() {
            if (i + 2 * k) % (if quick { 3 } else { 1 }) != 0 {
                continue;
            }
            v.push(ArrSpec::Sum(vec![a.clone(), b.clone()]));
            v.push(ArrSpec::Slice(vec![a.clone(), b.clone()]));
            v.push(ArrSpec::SumOf(Box::new(a.clone()), Box::new(b.clone())));
            if (i + k) % 4 == 0 {
                v.push(ArrSpec::Jitter { inner: Box::new(ArrSpec::Sum(vec![a.clone(), b.clone()])), j: 2 });
                v.push(ArrSpec::Sum(vec![a.clone(), b.clone(), ArrSpec::Sporadic { t: 7, j: 3 }]));
                v.push(ArrSpec::Slice(vec![a.clone(), ArrSpec::Periodic { t: 4 }, b.clone(), ArrSpec::Periodic { t: 12 }]));
                v.push(ArrSpec::Jitter { inner: Box::new(ArrSpec::Slice(vec![a.clone(), b.clone()])), j: 3 });
                v.push(ArrSpec::Jitter { inner: Box::new(ArrSpec::SumOf(Box::new(a.clone()), Box::new(b.clone()))), j: 1 });
            }
        }
    }
    // wide sums: four to six summands with pairwise different step positions, rotated so that
    // each position holds each summand once
    let wide: Vec<ArrSpec> = vec![
        ArrSpec::Sporadic { t: 5, j: 0 },
        ArrSpec::Sporadic { t: 7, j: 3 },
        ArrSpec::Periodic { t: 4 },
        ArrSpec::Sporadic { t: 6, j: 5 },
        ArrSpec::Curve { dmin: vec![0, 9] },
        ArrSpec::ExtCurve { dmin: vec![2, 11] },
    ];
    for n in 4..=wide.len() {
        for rot in 0..n {
            let comps: Vec<ArrSpec> = (0..n).map(|k| wide[(k + rot) % n].clone()).collect();
            v.push(ArrSpec::Sum(comps.clone()));
            v.push(ArrSpec::Slice(comps));
        }
    }
    v.push(ArrSpec::Sum(vec![]));
    v.push(ArrSpec::Slice(vec![]));
    v.push(ArrSpec::Slice(vec![ArrSpec::Periodic { t: 4 }, ArrSpec::Periodic { t: 12 }]));
    v
}

pub fn sparse_menu() -> Vec<ArrSpec> {
    let leaves = vec![
        ArrSpec::Curve { dmin: vec![1, 66] },
        ArrSpec::Curve { dmin: vec![70, 200] },
        ArrSpec::Curve { dmin: vec![0, 0, 130, 130, 131] },
        ArrSpec::ExtCurve { dmin: vec![1, 66] },
        ArrSpec::ExtCurve { dmin: vec![12, 78, 3000] },
        ArrSpec::Sporadic { t: 97, j: 130 },
        ArrSpec::Sporadic { t: 1000, j: 2 },
        ArrSpec::Periodic { t: 1003 },
        ArrSpec::Prefix { horizon: 200, steps: vec![(1, 1), (80, 2), (150, 3)] },
        ArrSpec::Jitter { inner: Box::new(ArrSpec::Periodic { t: 300 }), j: 77 },
    ];
    let mut v = leaves.clone();
    for l in &leaves {
        v.push(ArrSpec::OpaqueDefault { inner: Box::new(l.clone()) });
    }
    v.push(ArrSpec::Sum(vec![ArrSpec::Periodic { t: 1000 }, ArrSpec::Periodic { t: 1003 }]));
    v.push(ArrSpec::Slice(vec![ArrSpec::Periodic { t: 1000 }, ArrSpec::Periodic { t: 1003 }]));
    v.push(ArrSpec::SumOf(Box::new(ArrSpec::Periodic { t: 1000 }), Box::new(ArrSpec::Sporadic { t: 1003, j: 66 })));
    v.push(ArrSpec::OpaqueDefault { inner: Box::new(ArrSpec::Sum(vec![ArrSpec::Periodic { t: 1000 }, ArrSpec::Periodic { t: 1003 }])) });
    v.push(ArrSpec::Propagated { inner: Box::new(ArrSpec::OpaqueDefault { inner: Box::new(ArrSpec::Curve { dmin: vec![1, 66] }) }), j: 5 });
    // long runs of equal entries (sixteen and more simultaneous arrivals)
    let mut z = vec![0u64; 15];
    z.push(40);
    v.push(ArrSpec::ExtCurve { dmin: z.clone() });
    v.push(ArrSpec::Curve { dmin: z.clone() });
    let mut z2 = vec![0u64; 21];
    z2.extend([9, 9, 30]);
    v.push(ArrSpec::ExtCurve { dmin: z2.clone() });
    v.push(ArrSpec::Jitter { inner: Box::new(ArrSpec::ExtCurve { dmin: z }), j: 3 });
    // prefix objects with many steps
    v.push(ArrSpec::PrefixFromBoundUntil { inner: Box::new(ArrSpec::Sporadic { t: 1, j: 0 }), horizon: 40 });
    v.push(ArrSpec::PrefixFromBoundUntil { inner: Box::new(ArrSpec::Sporadic { t: 2, j: 5 }), horizon: 90 });
    v.push(ArrSpec::CurveFromPrefix { inner: Box::new(ArrSpec::PrefixFromBoundUntil { inner: Box::new(ArrSpec::Sporadic { t: 2, j: 5 }), horizon: 90 }) });
    // dense user-defined models, too
    v.push(ArrSpec::OpaqueDefault { inner: Box::new(ArrSpec::Sporadic { t: 3, j: 7 }) });
    v.push(ArrSpec::OpaqueDefault { inner: Box::new(ArrSpec::ExtCurve { dmin: vec![0, 2, 5] }) });
    v
}

pub fn rb_menu(quick: bool) -> Vec<RbSpec> {
    let arrs: Vec<ArrSpec> = leaf_menu(quick).into_iter().step_by(if quick { 9 } else { 4 }).collect();
    let costs = vec![
        CostSpec::Scalar(1),
        CostSpec::Scalar(3),
        CostSpec::Multiframe(vec![2, 1]),
        CostSpec::Multiframe(vec![1, 1, 4]),
        CostSpec::Curve(vec![2, 3, 5]),
        CostSpec::ExtCurve(vec![3, 4, 6]),
    ];
    let mut leaves = vec![];
    for a in &arrs {
        for c in &costs {
            leaves.push(RbSpec::Rbf(a.clone(), c.clone()));
        }
    }
    let mut v = leaves.clone();
    let thin: Vec<RbSpec> = leaves.iter().step_by(if quick { 5 } else { 3 }).cloned().collect();
    for (i, a) in thin.iter().enumerate() {
        v.push(RbSpec::Boxed(Box::new(a.clone())));
        for (k, b) in thin.iter().enumerate() {
            if (i + k) % 2 == 1 {
                continue;
            }
            v.push(RbSpec::Aggregate(vec![a.clone(), b.clone()]));
            v.push(RbSpec::Slice(vec![a.clone(), b.clone()]));
            if (i + k) % 6 == 0 {
                v.push(RbSpec::Aggregate(vec![RbSpec::Aggregate(vec![a.clone(), b.clone()]), RbSpec::Boxed(Box::new(b.clone()))]));
                v.push(RbSpec::Slice(vec![RbSpec::Slice(vec![a.clone()]), b.clone(), a.clone()]));
            }
        }
    }
    // wide compositions: four to six components with pairwise different step positions, each
    // position (first .. last) holding the component whose steps nobody else has
    let wide: Vec<RbSpec> = vec![
        RbSpec::Rbf(ArrSpec::Sporadic { t: 5, j: 0 }, CostSpec::Scalar(1)),
        RbSpec::Rbf(ArrSpec::Sporadic { t: 7, j: 3 }, CostSpec::Scalar(2)),
        RbSpec::Rbf(ArrSpec::Periodic { t: 4 }, CostSpec::Scalar(1)),
        RbSpec::Rbf(ArrSpec::Sporadic { t: 6, j: 5 }, CostSpec::Scalar(2)),
        RbSpec::Rbf(ArrSpec::Curve { dmin: vec![0, 9] }, CostSpec::Scalar(1)),
        RbSpec::Rbf(ArrSpec::Sporadic { t: 11, j: 0 }, CostSpec::Multiframe(vec![2, 1])),
    ];
    for n in 4..=wide.len() {
        for rot in 0..n {
            let comps: Vec<RbSpec> = (0..n).map(|k| wide[(k + rot) % n].clone()).collect();
            v.push(RbSpec::Aggregate(comps.clone()));
            v.push(RbSpec::Slice(comps));
        }
    }
    v.push(RbSpec::Aggregate(vec![]));
    v
}

/// (values f(0..=h), steps <= h) of an arrival spec
pub fn eval_arr(spec: &ArrSpec, h: u64) -> (Vec<u64>, Vec<u64>) {
    use response_time_analysis::arrival::ArrivalBound;
    let ab = spec.build();
    let f: Vec<u64> = (0..=h).map(|x| ab.number_arrivals(d(x)) as u64).collect();
    let got: Vec<u64> = ab.steps_iter().map(du).take_while(|x| *x <= h).take(10 * h as usize + 10).collect();
    (f, got)
}

/// far window (f0, f0 + w]: values f(f0..=f0+w) and the yielded steps that fall into it
pub fn eval_arr_far(spec: &ArrSpec, f0: u64, w: u64) -> (Vec<u64>, Vec<u64>) {
    use response_time_analysis::arrival::ArrivalBound;
    let ab = spec.build();
    let f: Vec<u64> = (f0..=f0 + w).map(|x| ab.number_arrivals(d(x)) as u64).collect();
    let got: Vec<u64> = ab
        .steps_iter()
        .map(du)
        .take(40 * (f0 + w) as usize)
        .take_while(|x| *x <= f0 + w)
        .filter(|x| *x > f0)
        .collect();
    (f, got)
}

pub fn eval_rb(spec: &RbSpec, h: u64) -> (Vec<u64>, Vec<u64>) {
    spec.with(&mut |rb| {
        let f: Vec<u64> = (0..=h).map(|x| su(rb.service_needed(d(x)))).collect();
        let got: Vec<u64> = rb.steps_iter().map(du).take_while(|x| *x <= h).take(10 * h as usize + 10).collect();
        (f, got)
    })
}

pub fn run(ctx: &mut Ctx) -> (String, Value, Vec<String>) {
    crate::util::silence_panics();
    let h: u64 = if ctx.quick() { 64 } else { 110 };
    let specs = menu(ctx.quick());
    // every watchdog hit costs its full cap and leaks a spinning thread: after this many reported
    // non-terminating cases the remaining cases are skipped (counted; the run is a violation anyway)
    const MAX_HANG_WITNESSES: u64 = 4;
    let mut skipped_after_hangs = 0u64;
    let mut evals = 0u64;
    let mut nontrivial = 0u64;
    let mut samples = vec![];
    // sparse models (step-free stretches of dozens to thousands of ticks), among them models
    // that rely on the trait's default steps_iter, up to a horizon of 3200
    let sparse = sparse_menu();
    let jobs: Vec<(&ArrSpec, u64)> = specs.iter().map(|x| (x, h)).chain(sparse.iter().map(|x| (x, 3200u64))).collect();
    for (spec, h) in jobs {
        if ctx.hangs_reported() >= MAX_HANG_WITNESSES {
            skipped_after_hangs += 1;
            continue;
        }
        evals += 1;
        let sp = spec.clone();
        let name = type_name(spec);
        match with_timeout(20.0, move || eval_arr(&sp, h)) {
            Ok((f, got)) => {
                if got.len() > 2 {
                    nontrivial += 1;
                }
                if let Some(dif) = diff_steps(&f, &got, h) {
                    let key = if dif.symptom == "yields-zero" && contains_prefix(spec) {
                        "arrival::ArrivalCurvePrefix::steps_iter#yields-zero".to_string()
                    } else {
                        format!("{name}::steps_iter#{}", dif.symptom)
                    };
                    ctx.violation(&key, &format!("{:?}: {}", spec, dif.detail), "steps-arr", json!({"spec": spec, "h": h}));
                }
                if f[h as usize] == 0 && !got.is_empty() {
                    ctx.violation(&format!("{name}::steps_iter#nonempty-although-nothing-arrives"), &format!("{:?}: nothing ever arrives but steps_iter yields {:?}", spec, got), "steps-arr", json!({"spec": spec, "h": h}));
                }
                if samples.len() < 3 && got.len() > 4 && matches!(spec, ArrSpec::Jitter { .. } | ArrSpec::Sum(_)) {
                    samples.push(json!({"spec": spec, "steps_iter": &got[..8.min(got.len())], "brute_force": (1..=h).filter(|x| f[*x as usize - 1] < f[*x as usize]).take(8).collect::<Vec<_>>()}));
                }
            }
            Err(Some(e)) => ctx.violation(&format!("{name}::steps_iter#panic"), &format!("{:?}: panic {e}", spec), "steps-arr", json!({"spec": spec, "h": h})),
            Err(None) => ctx.violation(&format!("{name}::steps_iter#does-not-terminate"), &format!("{:?}: no answer within 20 s", spec), "steps-arr", json!({"spec": spec, "h": h})),
        }
    }
    // "over an arbitrarily long horizon": a far window ((700, 740] quick, (2500, 2560] thorough)
    // for every leaf model and a sample of the compositions
    let mut far = 0u64;
    {
        let (f0, w) = if ctx.quick() { (700u64, 40u64) } else { (2500u64, 60u64) };
        let nleaf = leaf_menu(ctx.quick()).len();
        for (i, spec) in specs.iter().enumerate() {
            let leaf = i < nleaf;
            if !leaf && i % 23 != 0 {
                continue;
            }
            if ctx.hangs_reported() >= MAX_HANG_WITNESSES {
                skipped_after_hangs += 1;
                continue;
            }
            // nothing arrives: nothing to compare far out
            evals += 1;
            far += 1;
            let sp = spec.clone();
            let name = type_name(spec);
            match with_timeout(30.0, move || eval_arr_far(&sp, f0, w)) {
                Ok((f, got)) => {
                    let want: Vec<u64> = (1..=w).filter(|k| f[*k as usize - 1] < f[*k as usize]).map(|k| f0 + k).collect();
                    if want != got {
                        let sym = if want.iter().any(|x| !got.contains(x)) { "missing-step" } else { "spurious-step" };
                        let key = if contains_prefix(spec) && false { String::new() } else { format!("{name}::steps_iter#{sym}-far-out") };
                        ctx.violation(&key, &format!("{:?}: in ({f0}, {}] the bound increases at {:?} but steps_iter yields {:?}", spec, f0 + w, &want[..want.len().min(8)], &got[..got.len().min(8)]), "steps-arr-far", json!({"spec": spec, "f0": f0, "w": w}));
                    }
                }
                Err(Some(e)) => ctx.violation(&format!("{name}::steps_iter#panic"), &format!("{:?}: panic far out: {e}", spec), "steps-arr-far", json!({"spec": spec, "f0": f0, "w": w})),
                Err(None) => ctx.violation(&format!("{name}::steps_iter#does-not-terminate"), &format!("{:?}: no answer within 30 s for the window beyond {f0}", spec), "steps-arr-far", json!({"spec": spec, "f0": f0, "w": w})),
            }
        }
    }
    let rbs = rb_menu(ctx.quick());
    for spec in &rbs {
        if ctx.hangs_reported() >= MAX_HANG_WITNESSES {
            skipped_after_hangs += 1;
            continue;
        }
        evals += 1;
        let sp = spec.clone();
        match with_timeout(20.0, move || eval_rb(&sp, h)) {
            Ok((f, got)) => {
                if got.len() > 2 {
                    nontrivial += 1;
                }
                if let Some(dif) = diff_steps(&f, &got, h) {
                    let arrs = spec.arrivals();
                    let key = if dif.symptom == "yields-zero" && arrs.iter().any(|a| contains_prefix(a)) {
                        "arrival::ArrivalCurvePrefix::steps_iter#yields-zero".to_string()
                    } else {
                        // a request bound inherits its steps from the arrival models
                        let inner: Vec<&str> = arrs.iter().map(|a| type_name(a)).collect();
                        format!("RequestBound<{}>::steps_iter#{}", inner.first().copied().unwrap_or("-"), dif.symptom)
                    };
                    ctx.violation(&key, &format!("{:?}: {}", spec, dif.detail), "steps-rb", json!({"spec": spec, "h": h}));
                }
            }
            Err(Some(e)) => ctx.violation("RequestBound::steps_iter#panic", &format!("{:?}: panic {e}", spec), "steps-rb", json!({"spec": spec, "h": h})),
            Err(None) => ctx.violation("RequestBound::steps_iter#does-not-terminate", &format!("{:?}: no answer within 20 s", spec), "steps-rb", json!({"spec": spec, "h": h})),
        }
    }
    let cov = json!({
        "evaluations": evals,
        "distinct_nontrivial": nontrivial,
        "rule": format!("every arrival bound ({}) and request bound ({}) of the box is one evaluation: all items of steps_iter up to {h} (sparse and user-defined models with the default steps_iter: up to 3200) vs the brute-force set of increase points; non-trivial = more than two steps below the horizon", specs.len(), rbs.len()),
        "arrival_bounds": specs.len(),
        "request_bounds": rbs.len(),
        "horizon": h,
        "far_window_evaluations": far,
        "samples": samples,
        "cases_skipped_after_four_non_terminating_ones": skipped_after_hangs,
        "exhaustive": skipped_after_hangs == 0,
    });
    ("exploration".into(), cov, vec!["request bounds: every job has a positive cost (as the statement presupposes)".into()])
}

pub fn replay(kind: &str, case: &Value) -> bool {
    if kind == "steps-arr-far" {
        let spec: ArrSpec = serde_json::from_value(case["spec"].clone()).unwrap();
        let (f0, w) = (case["f0"].as_u64().unwrap(), case["w"].as_u64().unwrap());
        return match with_timeout(30.0, move || eval_arr_far(&spec, f0, w)) {
            Ok((f, got)) => {
                let want: Vec<u64> = (1..=w).filter(|k| f[*k as usize - 1] < f[*k as usize]).map(|k| f0 + k).collect();
                println!("replay: increases at {:?}, steps_iter yields {:?}", want, got);
                want != got
            }
            Err(e) => {
                println!("replay: {:?}", e);
                true
            }
        };
    }
    let h = case["h"].as_u64().unwrap_or(64);
    let r = if kind == "steps-arr" {
        let spec: ArrSpec = serde_json::from_value(case["spec"].clone()).unwrap();
        with_timeout(20.0, move || eval_arr(&spec, h))
    } else {
        let spec: RbSpec = serde_json::from_value(case["spec"].clone()).unwrap();
        with_timeout(20.0, move || eval_rb(&spec, h))
    };
    match r {
        Ok((f, got)) => {
            let dif = diff_steps(&f, &got, h);
            println!("replay: {:?}", dif);
            dif.is_some() || (f[h as usize] == 0 && !got.is_empty())
        }
        Err(e) => {
            println!("replay: {:?}", e);
            true
        }
    }
}
