//! C12: derived arrival curves dominate their source and are exact on the covered prefix.

use crate::automata::Aut;
use crate::spec::*;
use crate::util::{catch, with_timeout, Ctx};
use response_time_analysis::arrival::{delta_min_iter, ArrivalBound, Curve};
use serde_json::{json, Value};

/// all non-decreasing sequences of length 1..=maxlen over 0..=tmax
pub fn traces(maxlen: usize, tmax: u64) -> Vec<Vec<u64>> {
    fn rec(cur: &mut Vec<u64>, maxlen: usize, tmax: u64, out: &mut Vec<Vec<u64>>) {
        if !cur.is_empty() {
            out.push(cur.clone());
        }
        if cur.len() == maxlen {
            return;
        }
        let lo = cur.last().copied().unwrap_or(0);
        for v in lo..=tmax {
            cur.push(v);
            rec(cur, maxlen, tmax, out);
            cur.pop();
        }
    }
    let mut out = vec![];
    rec(&mut vec![], maxlen, tmax, &mut out);
    out
}

/// reference delta-min extraction (independent of the code under check)
pub fn ref_dmin(t: &[u64], prefix_jobs: usize) -> Vec<u64> {
    let mut v = vec![];
    for k in 0..prefix_jobs.min(t.len().saturating_sub(1)) {
        v.push((0..t.len() - k - 1).map(|i| t[i + k + 1] - t[i]).min().unwrap());
    }
    v
}

/// max number of trace events in any window of length delta
pub fn window_count(t: &[u64], delta: u64) -> usize {
    (0..t.len())
        .map(|i| t.iter().filter(|x| **x >= t[i] && **x < t[i] + delta).count())
        .max()
        .unwrap_or(0)
}

fn curve_of(spec: &ArrSpec) -> Curve {
    // rebuild as a concrete Curve to get at min_distance()
    match spec {
        ArrSpec::CurveFromBound { inner, njobs } => Curve::from_arrival_bound(&inner.build(), *njobs),
        ArrSpec::CurveFromBoundUntil { inner, horizon } => Curve::from_arrival_bound_until(&inner.build(), d(*horizon)),
        ArrSpec::CurveFromPeriodic { t } => Curve::from(response_time_analysis::arrival::Periodic::new(d(*t))),
        ArrSpec::CurveFromSporadic { t, j } => Curve::from(response_time_analysis::arrival::Sporadic::new(d(*t), d(*j))),
        ArrSpec::CurveFromPrefix { inner } => match &**inner {
            ArrSpec::Prefix { horizon, steps } => Curve::from(&response_time_analysis::arrival::ArrivalCurvePrefix::new(d(*horizon), steps.iter().map(|(a, n)| (d(*a), *n)).collect())),
            ArrSpec::PrefixFromBoundUntil { inner, horizon } => Curve::from(&response_time_analysis::arrival::ArrivalCurvePrefix::from_arrival_bound_until(&inner.build(), d(*horizon))),
            _ => unreachable!(),
        },
        _ => unreachable!(),
    }
}

pub fn sources(quick: bool) -> Vec<ArrSpec> {
    let mut v = vec![];
    let tmax = if quick { 5 } else { 7 };
    for t in 1..=tmax {
        v.push(ArrSpec::Periodic { t });
        for j in 0..=2 * t {
            if quick && j % 2 == 1 && j > 2 {
                continue;
            }
            v.push(ArrSpec::Sporadic { t, j });
        }
    }
    v.push(ArrSpec::Sum(vec![ArrSpec::Periodic { t: 5 }, ArrSpec::Periodic { t: 5 }]));
    v.push(ArrSpec::Sum(vec![ArrSpec::Sporadic { t: 4, j: 3 }, ArrSpec::Periodic { t: 6 }]));
    v.push(ArrSpec::ExtCurve { dmin: vec![1, 3, 6] });
    v.push(ArrSpec::ExtCurve { dmin: vec![0, 5] });
    v.push(ArrSpec::Jitter { inner: Box::new(ArrSpec::ExtCurve { dmin: vec![3, 7] }), j: 2 });
    v
}

#[derive(Default)]
struct Tally {
    evals: u64,
    nontrivial: u64,
    filtered: u64,
}

fn check_derived(ctx: &mut Ctx, what: &str, derived: &ArrSpec, source: &ArrSpec, h: u64, tally: &mut Tally) {
    tally.evals += 1;
    let (dv, sv) = (derived.clone(), source.clone());
    let is_prefix = matches!(derived, ArrSpec::PrefixFromBoundUntil { .. });
    let r = with_timeout(20.0, move || {
        let s = sv.build();
        let dd = dv.build();
        let src_horizon = match &sv {
            ArrSpec::Prefix { horizon, .. } | ArrSpec::PrefixFromBoundUntil { horizon, .. } => Some(*horizon),
            _ => None,
        };
        let covered = if let (ArrSpec::CurveFromPrefix { .. }, Some(hz)) = (&dv, src_horizon) {
            // a prefix object is exact up to its horizon only
            hz.min(du(curve_of(&dv).min_distance(1 << 40)))
        } else if is_prefix {
            match &dv {
                ArrSpec::PrefixFromBoundUntil { horizon, .. } => *horizon,
                _ => 0,
            }
        } else {
            du(curve_of(&dv).min_distance(1 << 40))
        };
        let src: Vec<usize> = (0..=h).map(|x| s.number_arrivals(d(x))).collect();
        let der: Vec<usize> = (0..=h).map(|x| dd.number_arrivals(d(x))).collect();
        // far windows (hundreds to thousands of jobs): "never smaller at any interval length"
        let mut far: Vec<u64> = vec![211, 461, 997, 2503];
        if let ArrSpec::Periodic { t } | ArrSpec::Sporadic { t, .. } = &sv {
            let j = if let ArrSpec::Sporadic { j, .. } = &sv { *j } else { 0 };
            for k in 0..6u64 {
                far.push((500 * t + k + 1).saturating_sub(j + 3));
            }
            far.push(450 * t + 1);
            far.push(1001 * t + 1);
        }
        let farv: Vec<(u64, usize, usize)> = if matches!(&dv, ArrSpec::CurveFromPrefix { .. }) { vec![] } else { far.into_iter().map(|x| (x, s.number_arrivals(d(x)), dd.number_arrivals(d(x)))).collect() };
        (covered, src, der, farv)
    });
    let case = json!({"derived": derived, "source": source, "h": h});
    match r {
        Err(Some(e)) => ctx.violation(&format!("{what}#panic"), &format!("{:?}: panic {e}", derived), "derived", case),
        Err(None) => ctx.violation(&format!("{what}#does-not-terminate"), &format!("{:?}: no answer within 20 s", derived), "derived", case),
        Ok((covered, src, der, farv)) => {
            if src[h as usize] > 2 {
                tally.nontrivial += 1;
            }
            if let Some((x, sv_, dv_)) = farv.iter().find(|(_, a, b)| b < a) {
                ctx.violation(&format!("{what}#smaller-than-source+far-window"), &format!("{:?}: derived curve gives {dv_} at delta={x}, its source {:?} gives {sv_}", derived, source), "derived-far", json!({"derived": derived, "source": source, "delta": x}));
            }
            if let Some(x) = (0..=h).find(|x| der[*x as usize] < src[*x as usize]) {
                let beyond = x > covered;
                let key = if what == "Curve::from(&ArrivalCurvePrefix)" && beyond {
                    "Curve::from(&ArrivalCurvePrefix)#smaller-than-source-beyond-horizon".to_string()
                } else {
                    format!("{what}#smaller-than-source")
                };
                ctx.violation(&key, &format!("{:?}: derived curve gives {} at delta={x}, its source {:?} gives {} (covered prefix {covered})", derived, der[x as usize], source, src[x as usize]), "derived", case.clone());
            }
            if let Some(x) = (0..=h.min(covered)).find(|x| der[*x as usize] != src[*x as usize]) {
                ctx.violation(&format!("{what}#differs-inside-covered-prefix"), &format!("{:?}: derived {} vs source {} at delta={x} although the covered prefix reaches {covered}", derived, der[x as usize], src[x as usize]), "derived", case.clone());
            }
            // still bounds the source *process*
            if let Some(aut) = Aut::of(source) {
                let (m, ..) = aut.max_events((h as usize).min(40));
                if let Some(x) = (0..m.len()).find(|x| m[*x] > der[*x] as u64) {
                    ctx.violation(&format!("{what}#undercounts-source-process"), &format!("{:?}: {} at delta={x} but the source process admits {} events", derived, der[x], m[x]), "derived", case);
                }
            }
        }
    }
}

pub fn run(ctx: &mut Ctx) -> (String, Value, Vec<String>) {
    crate::util::silence_panics();
    let quick = ctx.quick();
    let mut tally = Tally::default();
    let mut samples = vec![];
    // (a) traces
    let (maxlen, tmax) = if quick { (5, 6) } else { (6, 8) };
    // short traces exhaustively, then long ones: every sequence of inter-arrival gaps from
    // {0, 2, 9} of length 8 (quick) / {0, 1, 4, 13} of length 9 (thorough) — a dozen events with
    // tight clusters completed late, wide prefixes
    let mut all_traces: Vec<(Vec<u64>, Vec<usize>)> = traces(maxlen, tmax).into_iter().map(|t| (t, (1..=maxlen).collect())).collect();
    {
        let gaps: Vec<u64> = if quick { vec![0, 2, 9] } else { vec![0, 1, 4, 13] };
        let len = if quick { 8 } else { 9 };
        for idx in 0..(gaps.len() as u64).pow(len as u32) {
            let sel = crate::props::uni::product_index(idx, gaps.len(), len);
            let mut t = vec![0u64];
            for k in sel {
                t.push(t.last().unwrap() + gaps[k]);
            }
            all_traces.push((t, vec![2, 5, 8, 12]));
        }
    }
    for (t, pjs) in all_traces {
        for pj in pjs {
            let rd = ref_dmin(&t, pj);
            // representability: a Curve needs at least one entry and a positive largest distance
            if rd.is_empty() || *rd.last().unwrap() == 0 {
                tally.filtered += 1;
                continue;
            }
            tally.evals += 1;
            let spec = ArrSpec::CurveFromTrace { times: t.clone(), prefix_jobs: pj };
            let span = t.last().unwrap() - t[0];
            let hh = 3 * span + 3;
            let case = json!({"spec": spec});
            match catch(|| {
                let c = spec.build();
                (1..=hh).map(|x| c.number_arrivals(d(x))).collect::<Vec<_>>()
            }) {
                Err(e) => ctx.violation("Curve::from_trace#panic", &format!("{:?}: panic {e}", spec), "trace", case),
                Ok(eta) => {
                    if t.len() > 2 {
                        tally.nontrivial += 1;
                    }
                    for x in 1..=hh {
                        let wc = window_count(&t, x);
                        if wc > eta[x as usize - 1] {
                            ctx.violation("Curve::from_trace#undercounts-trace", &format!("trace {:?} prefix_jobs={pj}: {} events in a window of length {x} but the inferred curve says {}", t, wc, eta[x as usize - 1]), "trace", case);
                            break;
                        }
                    }
                    if samples.len() < 2 && t.len() == maxlen && pj == 3 && t[1] > t[0] {
                        samples.push(json!({"trace": t, "prefix_jobs": pj, "reference_dmin": rd, "curve_values_1..": &eta[..8.min(eta.len())]}));
                    }
                }
            }
        }
    }
    // (b) conversions
    let h = if quick { 50 } else { 90 };
    let srcs = sources(quick);
    for s in &srcs {
        for n in 1..=(if quick { 6 } else { 9 }) {
            check_derived(ctx, "Curve::from_arrival_bound", &ArrSpec::CurveFromBound { inner: Box::new(s.clone()), njobs: n }, s, h, &mut tally);
        }
        for hz in (0..=(if quick { 14 } else { 24 })).step_by(if quick { 2 } else { 1 }) {
            check_derived(ctx, "Curve::from_arrival_bound_until", &ArrSpec::CurveFromBoundUntil { inner: Box::new(s.clone()), horizon: hz }, s, h, &mut tally);
            if hz > 0 {
                let p = ArrSpec::PrefixFromBoundUntil { inner: Box::new(s.clone()), horizon: hz };
                check_derived(ctx, "ArrivalCurvePrefix::from_arrival_bound_until", &p, s, h, &mut tally);
                // and the conversion of that prefix object into a Curve, against the prefix object
                check_derived(ctx, "Curve::from(&ArrivalCurvePrefix)", &ArrSpec::CurveFromPrefix { inner: Box::new(p.clone()) }, &p, h, &mut tally);
            }
        }
        match s {
            ArrSpec::Periodic { t } => check_derived(ctx, "Curve::from(Periodic)", &ArrSpec::CurveFromPeriodic { t: *t }, s, h, &mut tally),
            ArrSpec::Sporadic { t, j } => check_derived(ctx, "Curve::from(Sporadic)", &ArrSpec::CurveFromSporadic { t: *t, j: *j }, s, h, &mut tally),
            _ => {}
        }
    }
    // prefix objects with many steps (dozens to more than a thousand)
    for src in [ArrSpec::Periodic { t: 1 }, ArrSpec::Sporadic { t: 1, j: 0 }, ArrSpec::Sporadic { t: 2, j: 5 }, ArrSpec::Sporadic { t: 1, j: 3 }, ArrSpec::Periodic { t: 3 }] {
        for hz in [33u64, 40, 70, 1100, 3100] {
            let p = ArrSpec::PrefixFromBoundUntil { inner: Box::new(src.clone()), horizon: hz };
            check_derived(ctx, "ArrivalCurvePrefix::from_arrival_bound_until", &p, &src, h.max(hz.min(1200)), &mut tally);
            check_derived(ctx, "Curve::from(&ArrivalCurvePrefix)", &ArrSpec::CurveFromPrefix { inner: Box::new(p.clone()) }, &p, h.max(hz.min(1200)), &mut tally);
        }
    }
    for (hz, st) in [(8u64, vec![(1u64, 1usize), (3, 2), (7, 3)]), (5, vec![(1, 2), (4, 3)]), (6, vec![(1, 1)]), (4, vec![(1, 1), (4, 2)]), (10, vec![(1, 1), (2, 2), (9, 4)])] {
        let p = ArrSpec::Prefix { horizon: hz, steps: st };
        check_derived(ctx, "Curve::from(&ArrivalCurvePrefix)", &ArrSpec::CurveFromPrefix { inner: Box::new(p.clone()) }, &p, h, &mut tally);
    }
    // (c) delta_min_iter is the exact dual of number_arrivals
    let mut duals: Vec<ArrSpec> = srcs.clone();
    for pf in nondecreasing_prefixes(3, 5) {
        duals.push(ArrSpec::Curve { dmin: pf });
    }
    duals.push(ArrSpec::Never);
    for s in &duals {
        tally.evals += 1;
        let sp = s.clone();
        let hh = h;
        let r = with_timeout(20.0, move || {
            let ab = sp.build();
            let eta: Vec<usize> = (0..=hh).map(|x| ab.number_arrivals(d(x))).collect();
            let nmax = eta[hh as usize];
            let got: Vec<(usize, u64)> = delta_min_iter(&ab).map(|(n, x)| (n, du(x))).take_while(|(n, _)| *n <= nmax).take(nmax + 3).collect();
            (eta, got)
        });
        let case = json!({"spec": s, "h": h});
        match r {
            Err(Some(e)) => ctx.violation("arrival::delta_min_iter#panic", &format!("{:?}: panic {e}", s), "dual", case),
            Err(None) => ctx.violation("arrival::delta_min_iter#does-not-terminate", &format!("{:?}: no answer within 20 s", s), "dual", case),
            Ok((eta, got)) => {
                let nmax = eta[h as usize];
                let mut want: Vec<(usize, u64)> = vec![(0, 0), (1, 0)];
                for n in 2..=nmax {
                    let x1 = (0..=h).find(|x| eta[*x as usize] >= n).unwrap();
                    want.push((n, x1 - 1));
                }
                let want: Vec<(usize, u64)> = want.into_iter().filter(|(n, _)| *n <= nmax.max(1)).collect();
                let got: Vec<(usize, u64)> = if nmax == 0 { got.into_iter().filter(|(n, _)| *n <= 1).collect() } else { got };
                if nmax > 2 {
                    tally.nontrivial += 1;
                }
                if got != want && !(nmax == 0 && got.len() <= 2) {
                    ctx.violation("arrival::delta_min_iter#not-dual-of-number_arrivals", &format!("{:?}: delta_min_iter yields {:?}, the dual of number_arrivals is {:?}", s, &got[..got.len().min(8)], &want[..want.len().min(8)]), "dual", case);
                }
            }
        }
    }
    let cov = json!({
        "evaluations": tally.evals,
        "distinct_nontrivial": tally.nontrivial,
        "rule": format!("(a) every non-decreasing trace of <= {maxlen} event times in [0,{tmax}] x prefix_jobs 1..={maxlen} whose reference delta-min prefix is representable (non-empty, positive last entry; {} pairs filtered) — all window lengths up to 3*span+3; (b) every source of the menu x every conversion and argument — all interval lengths up to {h}; (c) delta_min_iter vs brute-force dual; non-trivial = traces with more than two events / sources with more than two arrivals in the horizon", tally.filtered),
        "filtered_unrepresentable_trace_prefix_pairs": tally.filtered,
        "samples": samples,
        "exhaustive": true,
    });
    ("exploration".into(), cov, vec!["a Curve whose largest known distance is 0 cannot answer any query; such (trace, prefix_jobs) pairs are a representability precondition and are filtered by a reference extractor independent of the code under check".into()])
}

pub fn replay(kind: &str, case: &Value) -> bool {
    let mut ctx = Ctx::new("C12", crate::util::Tier::Quick);
    let mut tally = Tally::default();
    match kind {
        "derived" => {
            let dv: ArrSpec = serde_json::from_value(case["derived"].clone()).unwrap();
            let sv: ArrSpec = serde_json::from_value(case["source"].clone()).unwrap();
            let what = match &dv {
                ArrSpec::CurveFromBound { .. } => "Curve::from_arrival_bound",
                ArrSpec::CurveFromBoundUntil { .. } => "Curve::from_arrival_bound_until",
                ArrSpec::PrefixFromBoundUntil { .. } => "ArrivalCurvePrefix::from_arrival_bound_until",
                ArrSpec::CurveFromPrefix { .. } => "Curve::from(&ArrivalCurvePrefix)",
                ArrSpec::CurveFromPeriodic { .. } => "Curve::from(Periodic)",
                _ => "Curve::from(Sporadic)",
            };
            check_derived(&mut ctx, what, &dv, &sv, case["h"].as_u64().unwrap_or(50), &mut tally);
        }
        "derived-far" => {
            let dv: ArrSpec = serde_json::from_value(case["derived"].clone()).unwrap();
            let sv: ArrSpec = serde_json::from_value(case["source"].clone()).unwrap();
            let x = case["delta"].as_u64().unwrap();
            let r = catch(|| (sv.build().number_arrivals(d(x)), dv.build().number_arrivals(d(x))));
            println!("replay: (source, derived) at delta {x}: {:?}", r);
            return r.map(|(a, b)| b < a).unwrap_or(true);
        }
        "trace" => {
            let spec: ArrSpec = serde_json::from_value(case["spec"].clone()).unwrap();
            if let ArrSpec::CurveFromTrace { times, .. } = &spec {
                let span = times.last().unwrap() - times[0];
                let r = catch(|| {
                    let c = spec.build();
                    (1..=3 * span + 3).any(|x| window_count(times, x) > c.number_arrivals(d(x)))
                });
                println!("replay: undercount/panic = {:?}", r);
                return r.unwrap_or(true);
            }
        }
        _ => {
            println!("replay: re-run ./run.sh C12 quick for delta_min_iter artefacts");
            return true;
        }
    }
    ctx.n_violations() + ctx.n_known() > 0
}
