//! C13: curve extrapolation is conservative, only tightens, and is invisible as a cache.

use crate::automata::Aut;
use crate::spec::*;
use crate::util::{catch, Ctx};
use rayon::prelude::*;
use response_time_analysis::arrival::{ArrivalBound, Curve, ExtrapolatingCurve};
use serde::{Deserialize, Serialize};
use serde_json::{json, Value};
use std::sync::atomic::{AtomicU64, Ordering};
use std::sync::Mutex;

pub fn superadditive_prefixes(maxlen: usize, hi: u64) -> Vec<Vec<u64>> {
    nondecreasing_prefixes(maxlen, hi)
        .into_iter()
        .filter(|p| p.len() >= 2 && is_superadditive(p))
        .collect()
}

fn eta_vec(c: &dyn ArrivalBound, h: u64) -> Vec<usize> {
    (0..=h).map(|x| c.number_arrivals(d(x))).collect()
}

#[derive(Clone, Debug, Serialize, Deserialize)]
pub enum Ext {
    Horizon(u64),
    Steps(usize),
    WithBound(u64, usize),
}

fn part_a(ctx: &mut Ctx, evals: &mut u64, nontrivial: &mut u64, samples: &mut Vec<Value>) {
    let quick = ctx.quick();
    let h = if quick { 40 } else { 60 };
    for pf in superadditive_prefixes(if quick { 3 } else { 4 }, if quick { 6 } else { 8 }) {
        let plain = ArrSpec::curve(&pf);
        let plain_eta = eta_vec(&plain, h);
        let aut = Aut::Dmin { d: pf.iter().map(|x| *x as i16).collect() };
        let (m, ..) = aut.max_events(h as usize);
        let mut exts: Vec<Ext> = vec![];
        for x in (0..=(if quick { 24 } else { 40 })).step_by(if quick { 3 } else { 1 }) {
            exts.push(Ext::Horizon(x));
        }
        for n in 0..=(if quick { 8 } else { 12 }) {
            exts.push(Ext::Steps(n));
        }
        let last = *pf.last().unwrap();
        for delta in [1, last, last + 1, last + 3, 2 * last + 2] {
            for n in [pf.len() + 1, pf.len() + 2, pf.len() + 3] {
                exts.push(Ext::WithBound(delta.max(1), n));
            }
        }
        for e in exts {
            *evals += 1;
            let case = json!({"dmin": pf, "ext": e});
            let fname = match &e {
                Ext::Horizon(_) => "arrival::Curve::extrapolate",
                Ext::Steps(_) => "arrival::Curve::extrapolate_steps",
                Ext::WithBound(..) => "arrival::Curve::extrapolate_with_bound",
            };
            let r = catch(|| {
                let mut c = ArrSpec::curve(&pf);
                match &e {
                    Ext::Horizon(x) => c.extrapolate(d(*x)),
                    Ext::Steps(n) => c.extrapolate_steps(*n),
                    Ext::WithBound(dl, n) => c.extrapolate_with_bound((d(*dl), *n)),
                }
                let kept: Vec<u64> = (2..pf.len() + 2).map(|n| du(c.min_distance(n))).collect();
                let reach = du(c.min_distance(1 << 40));
                (kept, eta_vec(&c, h), reach)
            });
            match r {
                Err(err) => ctx.violation(&format!("{fname}#panic"), &format!("prefix {:?} {:?}: panic {err}", pf, e), "ext", case),
                Ok((kept, eta, reach)) => {
                    let grown = reach > last;
                    if grown {
                        *nontrivial += 1;
                    }
                    if kept != pf {
                        ctx.violation(&format!("{fname}#changes-prefix"), &format!("prefix {:?} {:?}: entries became {:?}", pf, e, kept), "ext", case.clone());
                    }
                    // Inside the extended prefix the comparison is decided by the delta-min
                    // entries; beyond it both curves fall back to repeating their whole prefix,
                    // and the two repetition rules are incomparable (separate key).
                    if let Some(x) = (0..=(h as usize).min(reach as usize)).find(|x| eta[*x] > plain_eta[*x]) {
                        ctx.violation(&format!("{fname}#more-arrivals-than-plain"), &format!("prefix {:?} {:?}: {} arrivals at delta={x}, un-extrapolated curve claims {}", pf, e, eta[x], plain_eta[x]), "ext", case.clone());
                    }
                    if let Some(x) = (reach as usize + 1..=h as usize).find(|x| eta[*x] > plain_eta[*x]) {
                        ctx.violation(&format!("{fname}#more-arrivals-than-plain-beyond-extended-prefix"), &format!("prefix {:?} {:?}: {} arrivals at delta={x} (beyond the extended prefix, which reaches {reach}), un-extrapolated curve claims {}", pf, e, eta[x], plain_eta[x]), "ext", case.clone());
                    }
                    // still bounds every sequence respecting the prefix (and the extra bound)
                    let mm = match &e {
                        Ext::WithBound(dl, n) if *n == pf.len() + 2 => {
                            let mut dd: Vec<i16> = pf.iter().map(|x| *x as i16).collect();
                            dd.push((*dl as i16 - 1).max(*dd.last().unwrap()));
                            Aut::Dmin { d: dd }.max_events(h as usize).0
                        }
                        _ => m.clone(),
                    };
                    if let Some(x) = (0..=h as usize).find(|x| mm[*x] > eta[*x] as u64) {
                        ctx.violation(&format!("{fname}#undercounts-prefix-compliant-sequence"), &format!("prefix {:?} {:?}: {} arrivals at delta={x} but a sequence respecting the prefix has {}", pf, e, eta[x], mm[x]), "ext", case.clone());
                    }
                    if samples.len() < 2 && grown && pf.len() == 3 {
                        samples.push(json!({"prefix": pf, "extension": e, "eta_extrapolated": &eta[..16], "eta_plain": &plain_eta[..16], "max_events": &mm[..16]}));
                    }
                }
            }
        }
        // the auto-extrapolating wrapper: never above plain, never below the process
        *evals += 1;
        let ec = ExtrapolatingCurve::new(ArrSpec::curve(&pf));
        let eta = eta_vec(&ec, h);
        if let Some(x) = (0..=h as usize).find(|x| eta[*x] > plain_eta[*x] || (m[*x] > eta[*x] as u64)) {
            ctx.violation("arrival::ExtrapolatingCurve#not-between-process-and-plain", &format!("prefix {:?}: {} at delta={x}, plain {} , process {}", pf, eta[x], plain_eta[x], m[x]), "ext", json!({"dmin": pf, "ext": "auto"}));
        }
    }
}

/// single-entry prefixes cannot be extrapolated by super-additivity; `extrapolate_with_bound`
/// takes the given bound as is.  The result must keep the entry, never exceed the plain curve
/// inside the extended prefix and bound every sequence that respects the entry AND the bound.
fn part_a_single(ctx: &mut Ctx, evals: &mut u64, nontrivial: &mut u64) {
    let h = 40u64;
    for p0 in 1..=(if ctx.quick() { 6u64 } else { 10 }) {
        let pf = vec![p0];
        let plain_eta = eta_vec(&ArrSpec::curve(&pf), h);
        // (only consistent bounds: three jobs cannot need less distance than two)
        for delta in (p0 + 1)..=(3 * p0 + 3) {
            for n in [2usize, 3, 4] {
                *evals += 1;
                let e = Ext::WithBound(delta, n);
                let case = json!({"dmin": pf, "ext": e});
                let r = catch(|| {
                    let mut c = ArrSpec::curve(&pf);
                    c.extrapolate_with_bound((d(delta), n));
                    (du(c.min_distance(2)), eta_vec(&c, h), du(c.min_distance(1 << 40)))
                });
                match r {
                    Err(err) => ctx.violation("arrival::Curve::extrapolate_with_bound#panic", &format!("prefix {:?} {:?}: panic {err}", pf, e), "ext", case),
                    Ok((kept, eta, reach)) => {
                        if reach > p0 {
                            *nontrivial += 1;
                        }
                        if kept != p0 {
                            ctx.violation("arrival::Curve::extrapolate_with_bound#changes-prefix", &format!("prefix {:?} {:?}: entry became {kept}", pf, e), "ext", case.clone());
                        }
                        if let Some(x) = (0..=(h.min(reach)) as usize).find(|x| eta[*x] > plain_eta[*x]) {
                            ctx.violation("arrival::Curve::extrapolate_with_bound#more-arrivals-than-plain", &format!("prefix {:?} {:?}: {} arrivals at delta={x}, un-extrapolated curve claims {}", pf, e, eta[x], plain_eta[x]), "ext", case.clone());
                        }
                        let mut dd = vec![p0 as i16];
                        if n == 3 {
                            dd.push((delta as i16 - 1).max(p0 as i16));
                        }
                        let (m, ..) = Aut::Dmin { d: dd }.max_events(h as usize);
                        if let Some(x) = (0..=h as usize).find(|x| m[*x] > eta[*x] as u64) {
                            ctx.violation("arrival::Curve::extrapolate_with_bound#undercounts-prefix-compliant-sequence", &format!("prefix {:?} {:?}: {} arrivals at delta={x} but a sequence respecting the prefix and the bound has {}", pf, e, eta[x], m[x]), "ext", case.clone());
                        }
                    }
                }
            }
        }
    }
}

/// Inputs that are not tiny: (1) prefixes of 18–24 entries whose late entries carry the
/// information; (2) iterator runs of 1500 steps on the auto-extrapolating wrapper (alone, and
/// after a clone has answered a far query), against an eagerly extrapolated Curve.
fn part_long(ctx: &mut Ctx, evals: &mut u64, nontrivial: &mut u64) {
    // distance needed for n jobs = D[n-2]; super-additive closure: D(a + b - 1) >= D(a) + D(b)
    fn closure(pf: &[u64], upto: usize) -> Vec<u64> {
        let mut dd: Vec<u64> = pf.to_vec();
        while dd.len() + 1 < upto {
            let n = dd.len() + 2; // jobs
            let mut best = *dd.last().unwrap();
            for a in 2..n {
                let b = n + 1 - a;
                if b >= 2 && b < n {
                    best = best.max(dd[a - 2] + dd[b - 2]);
                }
            }
            dd.push(best);
        }
        dd
    }
    let mut longs: Vec<Vec<u64>> = vec![];
    let mut v: Vec<u64> = (1..=17).collect();
    v.push(36);
    longs.push(v);
    let mut v: Vec<u64> = (1..=19).map(|i| 2 * i).collect();
    v.push(80);
    longs.push(v);
    longs.push((2..=21u64).map(|n| ((n - 1) * 5).saturating_sub(30)).collect());
    longs.push((2..=25u64).map(|n| if n < 20 { n / 3 } else { n / 3 + 40 }).collect());
    longs.push((0..22u64).map(|i| i * i / 4).collect());
    for pf in longs.iter().filter(|p| is_superadditive(p) && *p.last().unwrap() > 0) {
        let last = *pf.last().unwrap();
        let l = pf.len();
        let want = closure(pf, 3 * l + 4);
        let mut exts = vec![Ext::Horizon(last + 1), Ext::Horizon(2 * last), Ext::Horizon(3 * last + 7)];
        for k in [1usize, 5, 20, 2 * l] {
            exts.push(Ext::Steps(l + 1 + k));
        }
        let plain = ArrSpec::curve(pf);
        for e in exts {
            *evals += 1;
            *nontrivial += 1;
            let case = json!({"dmin": pf, "ext": e});
            let fname = if matches!(e, Ext::Horizon(_)) { "arrival::Curve::extrapolate" } else { "arrival::Curve::extrapolate_steps" };
            let r = catch(|| {
                let mut c = ArrSpec::curve(pf);
                match &e {
                    Ext::Horizon(x) => c.extrapolate(d(*x)),
                    Ext::Steps(n) => c.extrapolate_steps(*n),
                    _ => unreachable!(),
                }
                let reach = du(c.min_distance(1 << 40));
                // entries as far as the reference was computed
                let entries: Vec<u64> = (2..want.len() + 2).map(|n| du(c.min_distance(n))).take_while(|x| *x < reach).collect();
                let hh = reach.min(3 * last + 7);
                let above = (0..=hh).find(|x| c.number_arrivals(d(*x)) > plain.number_arrivals(d(*x)));
                (entries, above, reach)
            });
            match r {
                Err(err) => ctx.violation(&format!("{fname}#panic"), &format!("long prefix {:?} {:?}: panic {err}", pf, e), "ext-long", case),
                Ok((entries, above, reach)) => {
                    if let Some(i) = (0..entries.len().min(want.len())).find(|i| entries[*i] != want[*i]) {
                        let sym = if i < l { "changes-prefix" } else if entries[i] < want[i] { "more-arrivals-than-plain" } else { "undercounts-prefix-compliant-sequence" };
                        ctx.violation(&format!("{fname}#{sym}+long-prefix"), &format!("prefix of {l} entries {:?} {:?}: entry for {} jobs is {}, the super-additive closure of the prefix gives {} (extended prefix reaches {reach})", pf, e, i + 2, entries[i], want[i]), "ext-long", case.clone());
                    } else if let Some(x) = above {
                        ctx.violation(&format!("{fname}#more-arrivals-than-plain+long-prefix"), &format!("prefix of {l} entries {:?} {:?}: more arrivals than the un-extrapolated curve at delta={x}", pf, e), "ext-long", case.clone());
                    }
                }
            }
        }
        // the auto-extrapolating wrapper agrees with the closure
        *evals += 1;
        let r = catch(|| {
            let ec = ExtrapolatingCurve::new(ArrSpec::curve(pf));
            let hh = 3 * last + 7;
            (0..=hh).find(|x| {
                // number of jobs admitted by the closure in a window of length x
                let n_ref = if *x == 0 { 0 } else { 1 + want.iter().take_while(|dn| **dn < *x).count() };
                *x <= *want.last().unwrap() && ec.number_arrivals(d(*x)) != n_ref
            })
        });
        match r {
            Ok(None) => {}
            Ok(Some(x)) => ctx.violation("arrival::ExtrapolatingCurve#differs-from-closure+long-prefix", &format!("prefix of {l} entries {:?}: number_arrivals({x}) differs from the super-additive closure", pf), "ext-long", json!({"dmin": pf, "ext": "auto"})),
            Err(err) => ctx.violation("arrival::ExtrapolatingCurve#panic", &format!("long prefix {:?}: panic {err}", pf), "ext-long", json!({"dmin": pf, "ext": "auto"})),
        }
    }
    // long iterator runs
    let nsteps = 1500usize;
    let pfs = superadditive_prefixes(3, if ctx.quick() { 3 } else { 5 });
    let bad = Mutex::new(Vec::<(String, Value)>::new());
    let n = AtomicU64::new(0);
    pfs.par_iter().for_each(|pf| {
        for warm in [false, true] {
            n.fetch_add(1, Ordering::Relaxed);
            let r = catch(|| {
                let ec = ExtrapolatingCurve::new(ArrSpec::curve(pf));
                if warm {
                    let c2 = ec.clone();
                    let _ = c2.number_arrivals(d(40 * pf.last().unwrap() + 100));
                }
                let got: Vec<u64> = ec.steps_iter().take(nsteps).map(du).collect();
                let hz = *got.last().unwrap_or(&1) + 2;
                let mut eager: Curve = ArrSpec::curve(pf);
                eager.extrapolate(d(hz + 1));
                let mut want = vec![];
                let mut prev = 0;
                for x in 1..=hz {
                    let e = eager.number_arrivals(d(x));
                    if e > prev {
                        want.push(x);
                    }
                    prev = e;
                }
                want.truncate(nsteps);
                (got, want)
            });
            match r {
                Err(e) => bad.lock().unwrap().push((format!("prefix {:?} (far query on a clone first: {warm}): panic {e}", pf), json!({"dmin": pf, "warm": warm}))),
                Ok((got, want)) => {
                    let m = got.len().min(want.len());
                    if let Some(i) = (0..m).find(|i| got[*i] != want[*i]) {
                        bad.lock().unwrap().push((format!("prefix {:?} (far query on a clone first: {warm}): item #{} of steps_iter is {}, the eagerly extrapolated curve steps at {}", pf, i + 1, got[i], want[i]), json!({"dmin": pf, "warm": warm})));
                    }
                }
            }
        }
    });
    *evals += n.load(Ordering::Relaxed);
    *nontrivial += n.load(Ordering::Relaxed);
    let mut bad = bad.into_inner().unwrap();
    bad.sort_by(|a, b| a.0.len().cmp(&b.0.len()));
    for (w, c) in bad.into_iter().take(12) {
        ctx.violation("arrival::ExtrapolatingCurve::steps_iter#differs-from-eager-curve+long-run", &w, "steps-long", c);
    }
}

// ---------------- cache histories ----------------

#[derive(Clone, Copy, Debug, Serialize, Deserialize, PartialEq, Eq)]
pub enum Op {
    /// number_arrivals(delta class) on clone k
    Q(u8, u8),
    /// create a fresh steps_iter on clone k (replacing the live one)
    NewIter(u8),
    /// next() on the live iterator of clone k (created on demand)
    Next(u8),
    /// clone_with_jitter(2) of clone k, then number_arrivals(delta class)
    JQ(u8, u8),
    /// Vec of both clones -> steps_iter -> first 4 items
    Agg,
    /// three next() calls on the live iterator of clone k (reaches the end of the cached
    /// prefix within one letter)
    Adv3(u8),
    /// next() on a live steps_iter of a jittered clone (jitter 2) of clone 0 that shares the cache
    JNext,
}

pub fn alphabet() -> Vec<Op> {
    vec![
        Op::Q(0, 0),
        Op::Q(0, 2),
        Op::Q(0, 3),
        Op::Q(1, 1),
        Op::Q(1, 3),
        Op::NewIter(0),
        Op::NewIter(1),
        Op::Next(0),
        Op::Next(1),
        Op::JQ(0, 2),
        Op::JQ(1, 3),
        Op::Agg,
        Op::Adv3(0),
        Op::Adv3(1),
        Op::JNext,
    ]
}

fn delta_class(pf: &[u64], k: u8) -> u64 {
    let last = *pf.last().unwrap();
    match k {
        0 => 1,
        1 => pf[0] + 1,
        2 => last,
        _ => 3 * last + 2,
    }
}

/// run one history on fresh objects; answers as plain numbers
pub fn run_history(pf: &[u64], hist: &[Op]) -> Vec<Vec<u64>> {
    let c0 = ExtrapolatingCurve::new(ArrSpec::curve(pf));
    let c1 = c0.clone();
    let clones = [&c0, &c1];
    let jc = c0.clone_with_jitter(d(2));
    let mut jiter: Option<Box<dyn Iterator<Item = response_time_analysis::time::Duration> + '_>> = None;
    let mut iters: [Option<Box<dyn Iterator<Item = response_time_analysis::time::Duration> + '_>>; 2] = [None, None];
    let mut out = vec![];
    for op in hist {
        match *op {
            Op::Q(k, dc) => out.push(vec![clones[k as usize].number_arrivals(d(delta_class(pf, dc))) as u64]),
            Op::NewIter(k) => {
                iters[k as usize] = Some(clones[k as usize].steps_iter());
                out.push(vec![]);
            }
            Op::Next(k) => {
                if iters[k as usize].is_none() {
                    iters[k as usize] = Some(clones[k as usize].steps_iter());
                }
                out.push(vec![iters[k as usize].as_mut().unwrap().next().map(du).unwrap_or(u64::MAX)]);
            }
            Op::JQ(k, dc) => {
                let j = clones[k as usize].clone_with_jitter(d(2));
                out.push(vec![j.number_arrivals(d(delta_class(pf, dc))) as u64]);
            }
            Op::Agg => {
                let v: Vec<&ExtrapolatingCurve> = vec![&c0, &c1];
                out.push(v.steps_iter().take(4).map(du).collect());
            }
            Op::Adv3(k) => {
                if iters[k as usize].is_none() {
                    iters[k as usize] = Some(clones[k as usize].steps_iter());
                }
                let it = iters[k as usize].as_mut().unwrap();
                out.push((0..3).map(|_| it.next().map(du).unwrap_or(u64::MAX)).collect());
            }
            Op::JNext => {
                if jiter.is_none() {
                    jiter = Some(jc.steps_iter());
                }
                out.push(vec![jiter.as_mut().unwrap().next().map(du).unwrap_or(u64::MAX)]);
            }
        }
    }
    out
}

/// the same history answered from an eagerly extrapolated Curve (no shared state)
pub fn reference_history(pf: &[u64], hist: &[Op]) -> Vec<Vec<u64>> {
    let mut eager: Curve = ArrSpec::curve(pf);
    eager.extrapolate(d(12 * pf.last().unwrap() + 40));
    let steps: Vec<u64> = eager.steps_iter().take(64).map(du).collect();
    let jsteps: Vec<u64> = eager.clone_with_jitter(d(2)).steps_iter().take(64).map(du).collect();
    let mut pos = [0usize; 2];
    let mut jpos = 0usize;
    let mut out = vec![];
    for op in hist {
        match *op {
            Op::Q(_, dc) => out.push(vec![eager.number_arrivals(d(delta_class(pf, dc))) as u64]),
            Op::NewIter(k) => {
                pos[k as usize] = 0;
                out.push(vec![]);
            }
            Op::Next(k) => {
                out.push(vec![steps[pos[k as usize]]]);
                pos[k as usize] += 1;
            }
            Op::JQ(_, dc) => out.push(vec![eager.number_arrivals(d(delta_class(pf, dc) + 2)) as u64]),
            Op::Agg => out.push(steps[..4].to_vec()),
            Op::Adv3(k) => {
                out.push(steps[pos[k as usize]..pos[k as usize] + 3].to_vec());
                pos[k as usize] += 3;
            }
            Op::JNext => {
                out.push(vec![jsteps[jpos]]);
                jpos += 1;
            }
        }
    }
    out
}

fn part_b(ctx: &mut Ctx, evals: &mut u64, nontrivial: &mut u64, samples: &mut Vec<Value>) {
    let depth = if ctx.quick() { 5 } else { 7 };
    let prefixes: Vec<Vec<u64>> = if ctx.quick() {
        vec![vec![1, 3], vec![0, 4], vec![0, 2, 5], vec![2, 5, 7, 11]]
    } else {
        vec![vec![1, 3], vec![0, 4], vec![0, 2, 5], vec![2, 4, 6], vec![2, 5, 7, 11], vec![0, 0, 3, 3]]
    };
    let alpha = alphabet();
    let n = AtomicU64::new(0);
    let nt = AtomicU64::new(0);
    let bad = Mutex::new(Vec::<(String, String, Value)>::new());
    for pf in &prefixes {
        for len in 1..=depth {
            // depth 7 on the first two prefixes only (1.7e8 histories each)
            if len == 7 && pf != &prefixes[0] && pf != &prefixes[1] {
                continue;
            }
            let total = (alpha.len() as u64).pow(len as u32);
            (0..total).into_par_iter().for_each(|idx| {
                let sel = crate::props::uni::product_index(idx, alpha.len(), len);
                let hist: Vec<Op> = sel.iter().map(|k| alpha[*k]).collect();
                n.fetch_add(1, Ordering::Relaxed);
                // histories that query beyond the prefix before something else are the
                // interesting ones
                if hist.iter().any(|o| matches!(o, Op::Q(_, 3) | Op::JQ(_, 3))) && hist.iter().any(|o| matches!(o, Op::Next(_) | Op::Agg | Op::Adv3(_) | Op::JNext)) {
                    nt.fetch_add(1, Ordering::Relaxed);
                }
                let want = match catch(|| reference_history(pf, &hist)) {
                    Ok(w) => w,
                    Err(e) => {
                        let mut b = bad.lock().unwrap();
                        if b.len() < 50 {
                            b.push(("arrival::Curve#panic".into(), format!("prefix {:?}: the eagerly extrapolated Curve panics: {e}", pf), json!({"dmin": pf, "history": hist})));
                        }
                        return;
                    }
                };
                match catch(|| run_history(pf, &hist)) {
                    Ok(got) if got == want => {}
                    Ok(got) => {
                        let mut b = bad.lock().unwrap();
                        if b.len() < 50 {
                            b.push(("arrival::ExtrapolatingCurve#answer-depends-on-query-history".into(), format!("prefix {:?} history {:?}: answers {:?}, eager curve says {:?}", pf, hist, got, want), json!({"dmin": pf, "history": hist})));
                        }
                    }
                    Err(e) => {
                        let mut b = bad.lock().unwrap();
                        if b.len() < 50 {
                            b.push(("arrival::ExtrapolatingCurve#fails-on-shared-state".into(), format!("prefix {:?} history {:?}: panic {e}", pf, hist), json!({"dmin": pf, "history": hist})));
                        }
                    }
                }
            });
        }
        if samples.len() < 4 {
            let hist = vec![Op::NewIter(0), Op::Next(0), Op::Q(1, 3), Op::Next(0), Op::Agg];
            samples.push(json!({"prefix": pf, "history": hist, "answers": run_history(pf, &hist)}));
        }
    }
    let mut bad = bad.into_inner().unwrap();
    bad.sort_by(|a, b| a.1.len().cmp(&b.1.len()));
    for (k, w, c) in bad {
        ctx.violation(&k, &w, "hist", c);
    }
    *evals += n.load(Ordering::Relaxed);
    *nontrivial += nt.load(Ordering::Relaxed);
}

pub fn run(ctx: &mut Ctx) -> (String, Value, Vec<String>) {
    crate::util::silence_panics();
    let mut evals = 0;
    let mut nontrivial = 0;
    let mut samples = vec![];
    part_a(ctx, &mut evals, &mut nontrivial, &mut samples);
    part_a_single(ctx, &mut evals, &mut nontrivial);
    part_long(ctx, &mut evals, &mut nontrivial);
    let a_evals = evals;
    part_b(ctx, &mut evals, &mut nontrivial, &mut samples);
    let cov = json!({
        "evaluations": evals,
        "distinct_nontrivial": nontrivial,
        "rule": "(a) every super-additive delta-min prefix of the box x every extrapolate / extrapolate_steps / extrapolate_with_bound argument (non-trivial = the prefix actually grew); (a') five prefixes of 18-24 entries against the super-additive closure, and 1500-step iterator runs of the auto-extrapolating wrapper (alone / after a far query on a clone) against an eagerly extrapolated Curve; (b) every operation history up to the stated depth over a 15-letter alphabet on two clones (and a jittered clone) sharing the cache, replayed on fresh objects and compared with an eagerly extrapolated Curve (non-trivial = history mixes a beyond-prefix query with iterator use)",
        "extrapolation_cases": a_evals,
        "histories": evals - a_evals,
        "history_depth": if ctx.quick() { 5 } else { 7 },
        "samples": samples,
        "exhaustive": true,
    });
    ("exploration".into(), cov, vec!["no hook observes the cache: histories are enumerated as a tree (no state merging) and each is replayed on fresh objects".into()])
}

pub fn replay(kind: &str, case: &Value, key: &str) -> bool {
    let beyond_key = key.ends_with("-beyond-extended-prefix");
    let pf: Vec<u64> = serde_json::from_value(case["dmin"].clone()).unwrap();
    if kind == "ext-long" || kind == "steps-long" {
        // re-run the long-input part and see whether this prefix is still reported
        let mut c2 = Ctx::new("C13", crate::util::Tier::Quick);
        let (mut a, mut b) = (0, 0);
        part_long(&mut c2, &mut a, &mut b);
        let hit = c2.n_violations() > 0;
        println!("replay: long-input part re-run (it is cheap and has a fixed input list); still violated: {hit}");
        return hit;
    }
    if kind == "hist" {
        let hist: Vec<Op> = serde_json::from_value(case["history"].clone()).unwrap();
        let want = reference_history(&pf, &hist);
        let got = catch(|| run_history(&pf, &hist));
        println!("replay: got {:?} want {:?}", got, want);
        return got != Ok(want);
    }
    // extrapolation artefact: re-evaluate this (prefix, extension) pair
    let h = 60u64;
    if case["ext"] == "auto" {
        let plain = eta_vec(&ArrSpec::curve(&pf), h);
        let ec = eta_vec(&ExtrapolatingCurve::new(ArrSpec::curve(&pf)), h);
        let (m, ..) = Aut::Dmin { d: pf.iter().map(|x| *x as i16).collect() }.max_events(h as usize);
        let bad = (0..=h as usize).find(|x| ec[*x] > plain[*x] || m[*x] > ec[*x] as u64);
        println!("replay: ExtrapolatingCurve over {:?}: first bad delta {:?}", pf, bad);
        return bad.is_some();
    }
    let e: Ext = serde_json::from_value(case["ext"].clone()).unwrap();
    let plain = eta_vec(&ArrSpec::curve(&pf), h);
    let r = catch(|| {
        let mut c = ArrSpec::curve(&pf);
        match &e {
            Ext::Horizon(x) => c.extrapolate(d(*x)),
            Ext::Steps(n) => c.extrapolate_steps(*n),
            Ext::WithBound(dl, n) => c.extrapolate_with_bound((d(*dl), *n)),
        }
        let kept: Vec<u64> = (2..pf.len() + 2).map(|n| du(c.min_distance(n))).collect();
        (kept, eta_vec(&c, h), du(c.min_distance(1 << 40)))
    });
    match r {
        Err(e) => {
            println!("replay: panic {e}");
            true
        }
        Ok((kept, eta, reach)) => {
            let mut dd: Vec<i16> = pf.iter().map(|x| *x as i16).collect();
            if let Ext::WithBound(dl, n) = &e {
                if *n == pf.len() + 2 {
                    dd.push((*dl as i16 - 1).max(*dd.last().unwrap()));
                }
            }
            let (m, ..) = Aut::Dmin { d: dd }.max_events(h as usize);
            // the artefact's key says which side of the extended prefix it is about
            let above = (0..=h as usize)
                .filter(|x| if beyond_key { *x as u64 > reach } else { *x as u64 <= reach })
                .find(|x| eta[*x] > plain[*x]);
            let under = (0..=h as usize).find(|x| m[*x] > eta[*x] as u64);
            println!("replay: prefix {:?} {:?}: entries kept {:?}, extended prefix reaches {reach}, first delta above the plain curve {:?}, first delta below an admissible sequence {:?}", pf, e, kept == pf, above, under);
            kept != pf || above.is_some() || under.is_some()
        }
    }
}
