//! C14: job-cost models bound every run of consecutive jobs.

use crate::spec::*;
use crate::util::{catch, with_timeout, Ctx};
use rayon::prelude::*;
use response_time_analysis::wcet::{self, JobCostModel};
use serde::{Deserialize, Serialize};
use serde_json::{json, Value};
use std::sync::atomic::{AtomicU64, Ordering};
use std::sync::Mutex;

fn all_seqs(len: usize, hi: u64) -> Vec<Vec<u64>> {
    let mut out = vec![];
    let total = (hi + 1).pow(len as u32);
    for idx in 0..total {
        out.push(crate::props::uni::product_index(idx, hi as usize + 1, len).into_iter().map(|x| x as u64).collect());
    }
    out
}

/// largest total cost of n consecutive jobs of the trace
fn max_run(t: &[u64], n: usize) -> u64 {
    if n == 0 || t.is_empty() {
        return 0;
    }
    let n = n.min(t.len());
    (0..=t.len() - n).map(|i| t[i..i + n].iter().sum()).max().unwrap()
}

fn laws(ctx: &mut Ctx, name: &str, spec: &CostSpec, nmax: usize, evals: &mut u64) {
    *evals += 1;
    let sp = spec.clone();
    let r = with_timeout(20.0, move || {
        let m = sp.build();
        let cum: Vec<u64> = (0..=nmax).map(|n| su(m.cost_of_jobs(n))).collect();
        let items: Vec<u64> = m.job_cost_iter().take(nmax).map(su).collect();
        let least: Vec<u64> = (0..=nmax).map(|n| su(m.least_wcet(n))).collect();
        (cum, items, least)
    });
    let case = json!({"spec": spec, "nmax": nmax});
    match r {
        Err(Some(e)) => ctx.violation(&format!("{name}#panic"), &format!("{:?}: panic {e}", spec), "cost", case),
        Err(None) => ctx.violation(&format!("{name}#does-not-terminate"), &format!("{:?}: no answer within 20 s", spec), "cost", case),
        Ok((cum, items, least)) => {
            if cum[0] != 0 {
                ctx.violation(&format!("{name}::cost_of_jobs#nonzero-at-zero"), &format!("{:?}: cost_of_jobs(0) = {}", spec, cum[0]), "cost", case.clone());
            }
            if cum.windows(2).any(|w| w[0] > w[1]) {
                ctx.violation(&format!("{name}::cost_of_jobs#not-monotone"), &format!("{:?}: cost_of_jobs = {:?}", spec, cum), "cost", case.clone());
            }
            let mut acc = 0;
            for n in 1..=nmax.min(items.len()) {
                acc += items[n - 1];
                if acc != cum[n] {
                    ctx.violation(&format!("{name}::job_cost_iter#prefix-sums-differ-from-cost_of_jobs"), &format!("{:?}: sum of first {n} items = {acc}, cost_of_jobs({n}) = {}", spec, cum[n]), "cost", case.clone());
                    break;
                }
                if least[n] > items[..n].iter().copied().min().unwrap() {
                    ctx.violation(&format!("{name}::least_wcet#larger-than-an-item"), &format!("{:?}: least_wcet({n}) = {} but the first {n} items are {:?}", spec, least[n], &items[..n]), "cost", case.clone());
                    break;
                }
            }
        }
    }
}

/// a curve collected from an iterator: None if all laws hold
fn from_iter_violation(v: &[u64]) -> Option<String> {
    let vv = v.to_vec();
    let r = catch(move || {
        let c: wcet::Curve = vv.iter().map(|x| s(*x)).collect();
        let n = 2 * vv.len() + 2;
        let cum: Vec<u64> = (0..=n).map(|k| su(c.cost_of_jobs(k))).collect();
        let items: Vec<u64> = c.job_cost_iter().take(n).map(su).collect();
        let least: Vec<u64> = (0..=n).map(|k| su(c.least_wcet(k))).collect();
        (cum, items, least)
    });
    match r {
        Err(e) => Some(format!("panic {e}")),
        Ok((cum, items, least)) => {
            if cum[0] != 0 {
                return Some(format!("cost_of_jobs(0) = {}", cum[0]));
            }
            if cum.windows(2).any(|w| w[0] > w[1]) {
                return Some(format!("cost_of_jobs not monotone: {:?}", cum));
            }
            let mut run = 0;
            for k in 1..=v.len() {
                run = run.max(v[k - 1]);
                if cum[k] != run {
                    return Some(format!("cost_of_jobs({k}) = {}, the running maximum of the input is {run}", cum[k]));
                }
            }
            let mut acc = 0;
            for k in 1..=items.len() {
                acc += items[k - 1];
                if acc != cum[k] {
                    return Some(format!("the first {k} items of job_cost_iter sum to {acc}, cost_of_jobs({k}) = {}", cum[k]));
                }
                if least[k] > *items[..k].iter().min().unwrap() {
                    return Some(format!("least_wcet({k}) = {} exceeds an item of {:?}", least[k], &items[..k]));
                }
            }
            None
        }
    }
}

// ---------------- cache histories on wcet::ExtrapolatingCurve ----------------

#[derive(Clone, Copy, Debug, Serialize, Deserialize, PartialEq, Eq)]
pub enum Op {
    Cost(u8, u8),
    Least(u8, u8),
    Items(u8, u8),
}

pub fn alphabet() -> Vec<Op> {
    vec![
        Op::Cost(0, 1),
        Op::Cost(0, 4),
        Op::Cost(1, 9),
        Op::Cost(1, 2),
        Op::Least(0, 2),
        Op::Least(1, 7),
        Op::Least(0, 12),
        Op::Items(0, 3),
        Op::Items(1, 8),
    ]
}

pub fn run_history(pf: &[u64], hist: &[Op], shared: bool) -> Vec<Vec<u64>> {
    let mk = || wcet::ExtrapolatingCurve::new(wcet::Curve::new(pf.iter().map(|x| s(*x)).collect()));
    let c0 = mk();
    let c1 = c0.clone();
    let mut out = vec![];
    for op in hist {
        // the reference answers every query with a brand-new object
        let fresh;
        let pick = |k: u8| if k == 0 { &c0 } else { &c1 };
        let (k, obj): (u8, &wcet::ExtrapolatingCurve) = match op {
            Op::Cost(k, _) | Op::Least(k, _) | Op::Items(k, _) => (*k, pick(*k)),
        };
        let _ = k;
        let obj = if shared {
            obj
        } else {
            fresh = mk();
            &fresh
        };
        match *op {
            Op::Cost(_, n) => out.push(vec![su(obj.cost_of_jobs(n as usize))]),
            Op::Least(_, n) => out.push(vec![su(obj.least_wcet(n as usize))]),
            Op::Items(_, n) => out.push(obj.job_cost_iter().take(n as usize).map(su).collect()),
        }
    }
    out
}

pub fn run(ctx: &mut Ctx) -> (String, Value, Vec<String>) {
    crate::util::silence_panics();
    let quick = ctx.quick();
    let mut evals = 0u64;
    let mut nontrivial = 0u64;
    let mut samples = vec![];
    // extrapolation arguments already seen not to terminate (each costs a leaked worker)
    let mut hung: std::collections::HashSet<usize> = std::collections::HashSet::new();
    // (a) traces
    let (tl, hi, mn) = if quick { (6usize, 2u64, 4usize) } else { (7, 3, 5) };
    for len in 1..=tl {
        for t in all_seqs(len, hi) {
            for max_n in 1..=mn {
                evals += 1;
                let spec = CostSpec::CurveFromTrace { costs: t.clone(), max_n };
                let case = json!({"spec": spec});
                match catch(|| {
                    let c = spec.build();
                    (0..=2 * len).map(|n| su(c.cost_of_jobs(n))).collect::<Vec<_>>()
                }) {
                    Err(e) => ctx.violation("wcet::Curve::from_trace#panic", &format!("{:?}: panic {e}", spec), "cost-trace", case),
                    Ok(cum) => {
                        if len > 2 && t.iter().any(|x| *x != t[0]) {
                            nontrivial += 1;
                        }
                        for n in 0..=2 * len {
                            let mr = max_run(&t, n);
                            if cum[n] < mr {
                                ctx.violation("wcet::Curve::from_trace#undercounts-run", &format!("cost trace {:?} max_n={max_n}: a run of {n} consecutive jobs costs {mr} but cost_of_jobs({n}) = {}", t, cum[n]), "cost-trace", case);
                                break;
                            }
                        }
                        if samples.len() < 2 && len == tl && max_n == 3 && t[0] == 1 && t[len - 1] == hi {
                            samples.push(json!({"cost_trace": t, "max_n": max_n, "cost_of_jobs_0..": cum}));
                        }
                    }
                }
                // extrapolation never raises a bound and keeps dominating the trace
                if max_n >= 3 && len >= 3 {
                    for upto in [0usize, 1, 2, 5, 9, 14] {
                        if hung.contains(&upto) {
                            continue;
                        }
                        evals += 1;
                        let tt = t.clone();
                        let r = with_timeout(10.0, move || {
                            let plain = wcet::Curve::from_trace(tt.iter().map(|x| s(*x)), max_n);
                            let mut ext = plain.clone();
                            ext.extrapolate(upto);
                            let a: Vec<u64> = (0..=14).map(|n| su(plain.cost_of_jobs(n))).collect();
                            let b: Vec<u64> = (0..=14).map(|n| su(ext.cost_of_jobs(n))).collect();
                            (a, b)
                        });
                        let case = json!({"costs": t, "max_n": max_n, "extrapolate": upto});
                        match r {
                            Err(Some(e)) => ctx.violation("wcet::Curve::extrapolate#panic", &format!("trace {:?} max_n={max_n} extrapolate({upto}): panic {e}", t, ), "cost-ext", case),
                            Err(None) => {
                                hung.insert(upto);
                                ctx.violation("wcet::Curve::extrapolate#does-not-terminate", &format!("trace {:?} max_n={max_n} extrapolate({upto}): no answer within 10 s", t), "cost-ext", case)
                            }
                            Ok((a, b)) => {
                                // the extended prefix covers max(len, upto - 1) jobs; beyond it both
                                // curves repeat their whole prefix and are incomparable (separate key)
                                let reach = max_n.min(len).max(upto.saturating_sub(1));
                                if let Some(n) = (0..=14).find(|n| b[*n] > a[*n]) {
                                    let key = if n > reach { "wcet::Curve::extrapolate#raises-bound-beyond-extended-prefix" } else { "wcet::Curve::extrapolate#raises-bound" };
                                    ctx.violation(key, &format!("trace {:?} max_n={max_n} extrapolate({upto}): cost_of_jobs({n}) {} -> {} (extended prefix covers {reach} jobs)", t, a[n], b[n]), "cost-ext", case.clone());
                                }
                                if let Some(n) = (0..=14).find(|n| b[*n] < max_run(&t, *n)) {
                                    // only report if the un-extrapolated curve was fine (else it is from_trace's defect)
                                    if a[n] >= max_run(&t, n) {
                                        ctx.violation("wcet::Curve::extrapolate#undercounts-run", &format!("trace {:?} max_n={max_n} extrapolate({upto}): cost_of_jobs({n}) = {} < {}", t, b[n], max_run(&t, n)), "cost-ext", case);
                                    }
                                }
                            }
                        }
                    }
                }
            }
        }
    }
    // (a') long traces: every cost sequence over {0, 1, 5} of length 10 (quick) / {0, 1, 2, 7} of
    // length 10 (thorough), wide windows
    {
        let vals: Vec<u64> = if quick { vec![0, 1, 5] } else { vec![0, 1, 2, 7] };
        let len = 10usize;
        let n = AtomicU64::new(0);
        let nn = AtomicU64::new(0);
        let bad = Mutex::new(Vec::<(String, Value)>::new());
        (0..(vals.len() as u64).pow(len as u32)).into_par_iter().for_each(|idx| {
            let t: Vec<u64> = crate::props::uni::product_index(idx, vals.len(), len).into_iter().map(|k| vals[k]).collect();
            for max_n in [2usize, 6, 9, 10, 13] {
                n.fetch_add(1, Ordering::Relaxed);
                if t.iter().any(|x| *x != t[0]) {
                    nn.fetch_add(1, Ordering::Relaxed);
                }
                let spec = CostSpec::CurveFromTrace { costs: t.clone(), max_n };
                match catch(|| {
                    let c = spec.build();
                    (0..=2 * len + 3).map(|k| su(c.cost_of_jobs(k))).collect::<Vec<_>>()
                }) {
                    Err(e) => bad.lock().unwrap().push((format!("cost trace {:?} max_n={max_n}: panic {e}", t), json!({"spec": spec}))),
                    Ok(cum) => {
                        if let Some(k) = (0..=2 * len + 3).find(|k| cum[*k] < max_run(&t, *k)) {
                            let mut b = bad.lock().unwrap();
                            if b.len() < 20 {
                                b.push((format!("cost trace {:?} max_n={max_n}: a run of {k} consecutive jobs costs {} but cost_of_jobs({k}) = {}", t, max_run(&t, k), cum[k]), json!({"spec": spec})));
                            }
                        }
                    }
                }
            }
        });
        evals += n.load(Ordering::Relaxed);
        nontrivial += nn.load(Ordering::Relaxed);
        for (w, c) in bad.into_inner().unwrap() {
            ctx.violation("wcet::Curve::from_trace#undercounts-run", &w, "cost-trace", c);
        }
    }
    // (b) laws for all models
    for c in 0..=4u64 {
        laws(ctx, "wcet::Scalar", &CostSpec::Scalar(c), 12, &mut evals);
    }
    for len in 1..=(if quick { 3 } else { 4 }) {
        for v in all_seqs(len, 3) {
            laws(ctx, "wcet::Multiframe", &CostSpec::Multiframe(v), 12, &mut evals);
            nontrivial += 1;
        }
    }
    // cumulative-cost prefixes: monotone and sub-additive (cost(a+b) <= cost(a)+cost(b))
    let mut prefixes = vec![];
    for pf in nondecreasing_prefixes(if quick { 3 } else { 4 }, if quick { 5 } else { 7 }) {
        let ok = (0..pf.len()).all(|i| (0..pf.len()).all(|j| i + j + 1 >= pf.len() || pf[i + j + 1] <= pf[i] + pf[j]));
        if ok && pf[0] > 0 {
            prefixes.push(pf);
        }
    }
    for pf in &prefixes {
        laws(ctx, "wcet::Curve", &CostSpec::Curve(pf.clone()), 14, &mut evals);
        laws(ctx, "wcet::ExtrapolatingCurve", &CostSpec::ExtCurve(pf.clone()), 14, &mut evals);
        nontrivial += 1;
        // extrapolation never raises
        for upto in [0usize, 1, 3, 6, 12] {
            if hung.contains(&upto) {
                continue;
            }
            evals += 1;
            let p = pf.clone();
            let r = with_timeout(10.0, move || {
                let plain = wcet::Curve::new(p.iter().map(|x| s(*x)).collect());
                let mut ext = plain.clone();
                ext.extrapolate(upto);
                (0..=16).find(|n| ext.cost_of_jobs(*n) > plain.cost_of_jobs(*n))
            });
            let reach = pf.len().max(upto.saturating_sub(1));
            let case = json!({"prefix": pf, "extrapolate": upto});
            match r {
                Ok(None) => {}
                Ok(Some(n)) => ctx.violation(if n > reach { "wcet::Curve::extrapolate#raises-bound-beyond-extended-prefix" } else { "wcet::Curve::extrapolate#raises-bound" }, &format!("prefix {:?} extrapolate({upto}) raises cost_of_jobs({n}) (extended prefix covers {reach} jobs)", pf), "cost-ext", case),
                Err(Some(e)) => ctx.violation("wcet::Curve::extrapolate#panic", &format!("prefix {:?} extrapolate({upto}): panic {e}", pf), "cost-ext", case),
                Err(None) => {
                    hung.insert(upto);
                    ctx.violation("wcet::Curve::extrapolate#does-not-terminate", &format!("prefix {:?} extrapolate({upto}): no answer within 10 s", pf), "cost-ext", case)
                }
            }
        }
    }
    // (b'') long measured prefixes with rare expensive jobs (one job in P costs K), queried far
    // beyond the prefix through the auto-extrapolating wrapper: all laws, and never above the
    // plain curve; plus job counts beyond 2^32 on the non-caching models (monotone there, too)
    for (pp, kk) in [(7usize, 9u64), (25, 50), (50, 50), (100, 50)] {
        for max_n in [49usize, 66, 100] {
            let len = 3 * pp.max(40);
            let trace: Vec<u64> = (0..len).map(|i| if i % pp == pp - 1 { kk } else { 1 }).collect();
            let cum: Vec<u64> = {
                let c = wcet::Curve::from_trace(trace.iter().map(|x| s(*x)), max_n);
                (1..=max_n.min(len)).map(|n| su(c.cost_of_jobs(n))).collect()
            };
            laws(ctx, "wcet::ExtrapolatingCurve", &CostSpec::ExtCurve(cum.clone()), 300, &mut evals);
            laws(ctx, "wcet::Curve", &CostSpec::Curve(cum.clone()), 300, &mut evals);
            nontrivial += 2;
            evals += 1;
            let c2 = cum.clone();
            match with_timeout(30.0, move || {
                let plain = wcet::Curve::new(c2.iter().map(|x| s(*x)).collect());
                let ext = wcet::ExtrapolatingCurve::new(plain.clone());
                (0..=300usize).find(|n| ext.cost_of_jobs(*n) > plain.cost_of_jobs(*n)).map(|n| (n, su(plain.cost_of_jobs(n)), su(ext.cost_of_jobs(n))))
            }) {
                Ok(None) => {}
                Ok(Some((n, a, b))) => ctx.violation("wcet::ExtrapolatingCurve::cost_of_jobs#above-the-plain-curve", &format!("prefix of {} entries (one job in {pp} costs {kk}): cost_of_jobs({n}) = {b} through the extrapolating wrapper, {a} on the plain curve", cum.len()), "cost", json!({"spec": CostSpec::ExtCurve(cum.clone()), "nmax": 300})),
                Err(e) => ctx.violation("wcet::ExtrapolatingCurve#fails", &format!("prefix of {} entries: {:?}", cum.len(), e), "cost", json!({"spec": CostSpec::ExtCurve(cum.clone()), "nmax": 300})),
            }
        }
    }
    // (Multiframe::cost_of_jobs walks all n frames: not a candidate for n = 2^40)
    for spec in [CostSpec::Scalar(3), CostSpec::Curve(vec![3]), CostSpec::Curve(vec![2, 3, 5]), CostSpec::CurveFromTrace { costs: vec![1, 1, 5, 1], max_n: 3 }] {
        evals += 1;
        let sp = spec.clone();
        let far: Vec<usize> = vec![1 << 31, (1 << 32) - 1, 1 << 32, (1 << 32) + 1, (1 << 33) + 7, 3 << 32, 1 << 40];
        let f2 = far.clone();
        match with_timeout(30.0, move || {
            let m = sp.build();
            f2.iter().map(|n| su(m.cost_of_jobs(*n))).collect::<Vec<u64>>()
        }) {
            Ok(v) => {
                if let Some(i) = (1..v.len()).find(|i| v[*i] < v[*i - 1]) {
                    ctx.violation(&format!("wcet::{}::cost_of_jobs#not-monotone+far", match &spec { CostSpec::Scalar(_) => "Scalar", CostSpec::Multiframe(_) => "Multiframe", _ => "Curve" }), &format!("{:?}: cost_of_jobs({}) = {} but cost_of_jobs({}) = {}", spec, far[i - 1], v[i - 1], far[i], v[i]), "cost-far", json!({"spec": spec}));
                }
            }
            Err(e) => ctx.violation("wcet#fails+far", &format!("{:?}: {:?}", spec, e), "cost-far", json!({"spec": spec})),
        }
    }
    // (b') curves collected from an iterator of cumulative costs: the constructor repairs
    // non-monotone input by a running maximum, so EVERY vector is a legal input
    for len in 1..=(if quick { 4 } else { 5 }) {
        for v in all_seqs(len, if quick { 3 } else { 4 }) {
            evals += 1;
            if v.windows(2).any(|w| w[0] > w[1]) {
                nontrivial += 1;
            }
            if let Some(w) = from_iter_violation(&v) {
                ctx.violation("wcet::Curve::from_iter#laws", &format!("cumulative costs {:?} collected into a Curve: {w}", v), "cost-iter", json!({"cumulative": v}));
            }
        }
    }
    // (c) query histories on two clones sharing the cache == fresh object per query
    let depth = if quick { 4 } else { 6 };
    let alpha = alphabet();
    let hp: Vec<Vec<u64>> = if quick { vec![vec![2, 3, 5], vec![3, 4, 4, 7]] } else { vec![vec![2, 3, 5], vec![3, 4, 4, 7], vec![1, 2, 3], vec![4, 5, 9, 9, 10], vec![2, 3]] };
    let n = AtomicU64::new(0);
    let nboth = AtomicU64::new(0);
    let bad = Mutex::new(Vec::<(String, String, Value)>::new());
    for pf in &hp {
        for len in 1..=depth {
            let total = (alpha.len() as u64).pow(len as u32);
            (0..total).into_par_iter().for_each(|idx| {
                let sel = crate::props::uni::product_index(idx, alpha.len(), len);
                let hist: Vec<Op> = sel.iter().map(|k| alpha[*k]).collect();
                n.fetch_add(1, Ordering::Relaxed);
                // non-trivial: the history queries both clones (the cache is actually shared)
                let clone_of = |o: &Op| match o {
                    Op::Cost(k, _) | Op::Least(k, _) | Op::Items(k, _) => *k,
                };
                if hist.iter().any(|o| clone_of(o) == 0) && hist.iter().any(|o| clone_of(o) == 1) {
                    nboth.fetch_add(1, Ordering::Relaxed);
                }
                let got = catch(|| run_history(pf, &hist, true));
                let want = catch(|| run_history(pf, &hist, false));
                if got != want || got.is_err() {
                    let mut b = bad.lock().unwrap();
                    if b.len() < 60 {
                        let key = if got.is_err() && want.is_err() {
                            "wcet::ExtrapolatingCurve#panic"
                        } else if got.is_err() {
                            "wcet::ExtrapolatingCurve#fails-on-shared-state"
                        } else if want.is_err() {
                            "wcet::ExtrapolatingCurve#fresh-object-panics"
                        } else {
                            // which kind of query differs first?
                            let (g, w) = (got.as_ref().unwrap(), want.as_ref().unwrap());
                            let i = (0..hist.len()).find(|i| g[*i] != w[*i]).unwrap();
                            match hist[i] {
                                Op::Least(..) => "wcet::ExtrapolatingCurve::least_wcet#answer-depends-on-query-history",
                                Op::Cost(..) => "wcet::ExtrapolatingCurve::cost_of_jobs#answer-depends-on-query-history",
                                Op::Items(..) => "wcet::ExtrapolatingCurve::job_cost_iter#answer-depends-on-query-history",
                            }
                        };
                        b.push((key.into(), format!("prefix {:?} history {:?}: answers {:?}, fresh objects answer {:?}", pf, hist, got, want), json!({"prefix": pf, "history": hist})));
                    }
                }
            });
        }
        if samples.len() < 4 {
            let hist = vec![Op::Least(0, 7), Op::Cost(1, 9), Op::Least(0, 7), Op::Items(0, 3)];
            samples.push(json!({"prefix": pf, "history": hist, "answers_shared": catch(|| run_history(pf, &hist, true)).ok(), "answers_fresh": catch(|| run_history(pf, &hist, false)).ok()}));
        }
    }
    let mut bad = bad.into_inner().unwrap();
    bad.sort_by(|a, b| a.1.len().cmp(&b.1.len()));
    for (k, w, c) in bad {
        ctx.violation(&k, &w, "cost-hist", c);
    }
    let nh = n.load(Ordering::Relaxed);
    evals += nh;
    nontrivial += nboth.load(Ordering::Relaxed);
    let cov = json!({
        "evaluations": evals,
        "distinct_nontrivial": nontrivial,
        "rule": format!("(a) every cost trace of length <= {tl} over 0..={hi} x max_n 1..={mn}: every run length up to twice the trace, plus extrapolation arguments; every cost sequence of length 10 over three (thorough: four) values x five window widths; (b) laws for every scalar, multiframe vector (length <= 4 over 0..=3) and monotone sub-additive cumulative prefix, and for every (also non-monotone) cumulative vector of length <= 4/5 collected through FromIterator; (c) every query history up to depth {depth} over a 9-letter alphabet on two clones vs a fresh object per query; non-trivial = non-constant traces of length > 2 / vectors / prefixes / histories that query both clones"),
        "histories": nh,
        "samples": samples,
        "exhaustive": true,
    });
    ("exploration".into(), cov, vec!["reference for traces: run sums over the raw trace; reference for histories: a brand-new ExtrapolatingCurve per query".into()])
}

pub fn replay(kind: &str, case: &Value, key: &str) -> bool {
    let beyond_key = key.ends_with("-beyond-extended-prefix");
    match kind {
        "cost-hist" => {
            let pf: Vec<u64> = serde_json::from_value(case["prefix"].clone()).unwrap();
            let hist: Vec<Op> = serde_json::from_value(case["history"].clone()).unwrap();
            let got = catch(|| run_history(&pf, &hist, true));
            let want = catch(|| run_history(&pf, &hist, false));
            println!("replay: shared {:?} fresh {:?}", got, want);
            got != want
        }
        "cost-trace" => {
            let spec: CostSpec = serde_json::from_value(case["spec"].clone()).unwrap();
            if let CostSpec::CurveFromTrace { costs, .. } = &spec {
                let r = catch(|| {
                    let c = spec.build();
                    (0..=2 * costs.len()).any(|n| su(c.cost_of_jobs(n)) < max_run(costs, n))
                });
                println!("replay: undercount/panic = {:?}", r);
                return r.unwrap_or(true);
            }
            true
        }
        "cost-far" => {
            let spec: CostSpec = serde_json::from_value(case["spec"].clone()).unwrap();
            let far: Vec<usize> = vec![1 << 31, (1 << 32) - 1, 1 << 32, (1 << 32) + 1, (1 << 33) + 7, 3 << 32, 1 << 40];
            let r = catch(|| {
                let m = spec.build();
                far.iter().map(|n| su(m.cost_of_jobs(*n))).collect::<Vec<u64>>()
            });
            println!("replay: {:?}", r);
            r.map(|v| v.windows(2).any(|w| w[1] < w[0])).unwrap_or(true)
        }
        "cost-iter" => {
            let v: Vec<u64> = serde_json::from_value(case["cumulative"].clone()).unwrap();
            let r = from_iter_violation(&v);
            println!("replay: {:?}", r);
            r.is_some()
        }
        "cost" => {
            let spec: CostSpec = serde_json::from_value(case["spec"].clone()).unwrap();
            let mut ctx = Ctx::new("C14", crate::util::Tier::Quick);
            let mut evals = 0;
            laws(&mut ctx, "replay", &spec, case["nmax"].as_u64().unwrap_or(12) as usize, &mut evals);
            ctx.n_violations() + ctx.n_known() > 0
        }
        _ => {
            // extrapolation artefact: {costs, max_n, extrapolate} or {prefix, extrapolate}
            let upto = case["extrapolate"].as_u64().unwrap_or(0) as usize;
            let trace: Option<Vec<u64>> = case.get("costs").and_then(|c| serde_json::from_value(c.clone()).ok());
            let max_n = case.get("max_n").and_then(|x| x.as_u64()).unwrap_or(3) as usize;
            let prefix: Option<Vec<u64>> = case.get("prefix").and_then(|c| serde_json::from_value(c.clone()).ok());
            let (t2, p2) = (trace.clone(), prefix.clone());
            let r = with_timeout(10.0, move || {
                let plain = match (&t2, &p2) {
                    (Some(t), _) => wcet::Curve::from_trace(t.iter().map(|x| s(*x)), max_n),
                    (_, Some(p)) => wcet::Curve::new(p.iter().map(|x| s(*x)).collect()),
                    _ => panic!("bad artefact"),
                };
                let mut ext = plain.clone();
                ext.extrapolate(upto);
                let a: Vec<u64> = (0..=16).map(|n| su(plain.cost_of_jobs(n))).collect();
                let b: Vec<u64> = (0..=16).map(|n| su(ext.cost_of_jobs(n))).collect();
                (a, b)
            });
            match r {
                Err(e) => {
                    println!("replay: {:?}", e);
                    true
                }
                Ok((a, b)) => {
                    let len = trace.as_ref().map(|t| max_n.min(t.len())).or(prefix.as_ref().map(|p| p.len())).unwrap_or(0);
                    let reach = len.max(upto.saturating_sub(1));
                    // the artefact's key says which side of the extended prefix it is about
                    let raised = (0..=16usize).filter(|n| if beyond_key { *n > reach } else { *n <= reach }).find(|n| b[*n] > a[*n]);
                    let under = trace.as_ref().and_then(|t| (0..=16).find(|n| b[*n] < max_run(t, *n) && a[*n] >= max_run(t, *n)));
                    println!("replay: plain {:?}\nreplay: extrapolated {:?}\nreplay: first n raised {:?}, first n below a run of the trace {:?}", a, b, raised, under);
                    raised.is_some() || under.is_some()
                }
            }
        }
    }
}
