//! C15: the approximated Poisson bound is the (1-epsilon) quantile.  Weakest fit for exhaustive
//! enumeration: the parameter space is continuous, the grid is the alphabet, nothing is claimed
//! off-grid.

use crate::spec::*;
use crate::util::{with_timeout, Ctx};
use response_time_analysis::arrival::{ApproximatedPoisson, ArrivalBound, Poisson};
use serde_json::{json, Value};

/// log of the Poisson pmf, evaluated in log space
fn ln_pmf(mean: f64, k: u64) -> f64 {
    if mean <= 0.0 {
        return if k == 0 { 0.0 } else { f64::NEG_INFINITY };
    }
    let mut lp = k as f64 * mean.ln() - mean;
    // sum of ln i with compensated summation
    let (mut sum, mut c) = (0.0f64, 0.0f64);
    for i in 1..=k {
        let y = (i as f64).ln() - c;
        let t = sum + y;
        c = (t - sum) - y;
        sum = t;
    }
    lp -= sum;
    lp
}

/// CDF(n) for n = 0..=nmax (compensated summation)
fn cdf_table(mean: f64, nmax: u64) -> Vec<f64> {
    let mut out = Vec::with_capacity(nmax as usize + 1);
    let (mut sum, mut c) = (0.0f64, 0.0f64);
    for k in 0..=nmax {
        let y = ln_pmf(mean, k).exp() - c;
        let t = sum + y;
        c = (t - sum) - y;
        sum = t;
        out.push(sum);
    }
    out
}

/// P[N > n] = sum_{k > n} pmf(k), summed smallest terms first (no cancellation against 1)
fn upper_tail(mean: f64, n: u64) -> f64 {
    let mut terms = vec![];
    let mut k = n + 1;
    loop {
        let t = ln_pmf(mean, k).exp();
        terms.push(t);
        if (k as f64) > mean + 5.0 && t < 1e-40 {
            break;
        }
        k += 1;
    }
    terms.iter().rev().sum::<f64>()
}

pub fn grid(quick: bool) -> Vec<(f64, f64, u64)> {
    let rates = [0.001, 0.01, 0.1, 0.5, 1.0, 3.0];
    let eps = [0.5, 0.1, 1e-3, 1e-6, 1e-9];
    let mut means: Vec<u64> = (0..=50).collect();
    means.extend([60, 75, 100, 125, 130, 150, 200, 400, 700, 745, 800, 1500]);
    if !quick {
        means.extend([55, 65, 90, 110, 140, 170, 250, 300, 500, 600, 720, 760, 1000, 2000, 5000]);
    }
    let mut v = vec![];
    for r in rates {
        for e in eps {
            for m in &means {
                // delta such that rate * delta = mean (only integral deltas exist)
                let delta = (*m as f64 / r).round() as u64;
                if (delta as f64 * r - *m as f64).abs() < 1e-6 {
                    if quick && delta > 200_000 {
                        continue;
                    }
                    v.push((r, e, delta));
                }
            }
        }
    }
    v.sort_by(|a, b| a.partial_cmp(b).unwrap());
    v.dedup();
    v
}

pub fn run(ctx: &mut Ctx) -> (String, Value, Vec<String>) {
    crate::util::silence_panics();
    let tau = 1e-9;
    let g = grid(ctx.quick());
    let mut evals = 0u64;
    let mut nontrivial = 0u64;
    let mut samples = vec![];
    let mut hung = 0;
    // monotonicity is checked along each (rate, eps) line in delta order
    let mut last: Option<(f64, f64, u64, usize)> = None;
    for (rate, eps, delta) in g.iter().copied() {
        evals += 1;
        let mean = rate * delta as f64;
        let case = json!({"rate": rate, "epsilon": eps, "delta": delta});
        if hung >= 3 && mean > 700.0 {
            // every further hanging call costs a leaked spinning worker; three witnesses suffice
            continue;
        }
        let r = with_timeout(if ctx.quick() { 5.0 } else { 20.0 }, move || {
            ApproximatedPoisson::new(rate, eps).number_arrivals(d(delta))
        });
        let n = match r {
            Ok(n) => n as u64,
            Err(Some(e)) => {
                ctx.violation("arrival::ApproximatedPoisson::number_arrivals#panic", &format!("rate {rate} eps {eps} delta {delta} (mean {mean}): panic {e}"), "poisson", case);
                continue;
            }
            Err(None) => {
                hung += 1;
                ctx.violation("arrival::ApproximatedPoisson::number_arrivals#does-not-terminate", &format!("rate {rate} eps {eps} delta {delta} (mean {mean}): no answer within the time cap"), "poisson", case);
                continue;
            }
        };
        if delta == 0 {
            if n != 0 {
                ctx.violation("arrival::ApproximatedPoisson::number_arrivals#nonzero-at-zero", &format!("delta = 0 gives {n}"), "poisson", case);
            }
            // the pmf of an empty interval is the point mass at 0
            for k in 0..3u64 {
                evals += 1;
                let p = Poisson { rate }.arrival_probability(d(0), k as usize);
                let want = if k == 0 { 1.0 } else { 0.0 };
                if !((p - want).abs() <= 1e-12) {
                    ctx.violation("arrival::Poisson::arrival_probability#not-the-pmf", &format!("rate {rate} delta 0 k {k}: {p:e}, Poisson pmf is {want}"), "poisson-pmf", json!({"rate": rate, "delta": 0, "k": k}));
                    break;
                }
            }
            continue;
        }
        if mean >= 1.0 {
            nontrivial += 1;
        }
        let nmax = (mean + 12.0 * mean.sqrt() + 60.0) as u64;
        let cdf = cdf_table(mean, nmax.max(n + 1));
        // accept n iff CDF(n) >= 1-eps (within tau) and CDF(n-1) < 1-eps (within tau)
        let ok_hi = cdf[n as usize] >= 1.0 - eps - tau;
        let ok_lo = n == 0 || cdf[n as usize - 1] < 1.0 - eps + tau;
        if !ok_hi || !ok_lo {
            let want = (0..cdf.len()).find(|k| cdf[*k] >= 1.0 - eps).unwrap_or(cdf.len());
            let sym = if !ok_hi { "below-quantile" } else { "above-quantile" };
            ctx.violation(
                &format!("arrival::ApproximatedPoisson::number_arrivals#{sym}"),
                &format!("rate {rate} eps {eps} delta {delta} (mean {mean}): returned {n}, the (1-eps) quantile is {want} (CDF({n}) = {:.12})", cdf[(n as usize).min(cdf.len() - 1)]),
                "poisson",
                case.clone(),
            );
        }
        // the same object obtained through the other constructor, Poisson::approximate, and a
        // jittered clone (which must answer for the interval lengthened by the jitter)
        if mean <= 700.0 {
            evals += 1;
            match with_timeout(5.0, move || Poisson { rate }.approximate(eps).number_arrivals(d(delta))) {
                Ok(n2) if n2 as u64 == n => {}
                Ok(n2) => ctx.violation("arrival::Poisson::approximate#differs-from-ApproximatedPoisson::new", &format!("rate {rate} eps {eps} delta {delta}: Poisson{{rate}}.approximate(eps) answers {n2}, ApproximatedPoisson::new(rate, eps) answers {n}"), "poisson-approx", case.clone()),
                Err(e) => ctx.violation("arrival::Poisson::approximate#fails", &format!("rate {rate} eps {eps} delta {delta}: {:?}", e), "poisson-approx", case.clone()),
            }
            let jit = 3u64;
            if delta > jit {
                evals += 1;
                let dd = delta - jit;
                match with_timeout(5.0, move || ApproximatedPoisson::new(rate, eps).clone_with_jitter(d(jit)).number_arrivals(d(dd))) {
                    Ok(n3) if n3 as u64 == n => {}
                    Ok(n3) => ctx.violation("arrival::ApproximatedPoisson::clone_with_jitter#not-the-quantile-of-the-lengthened-interval", &format!("rate {rate} eps {eps}: jittered clone (jitter {jit}) answers {n3} for delta {dd}, the process answers {n} for delta {delta}"), "poisson-approx", case.clone()),
                    Err(e) => ctx.violation("arrival::ApproximatedPoisson::clone_with_jitter#fails", &format!("rate {rate} eps {eps} delta {dd}: {:?}", e), "poisson-approx", case.clone()),
                }
            }
        }
        if let Some((r0, e0, d0, n0)) = last {
            if r0 == rate && e0 == eps && d0 <= delta && n0 as u64 > n {
                ctx.violation("arrival::ApproximatedPoisson::number_arrivals#not-monotone", &format!("rate {rate} eps {eps}: {n0} at delta {d0} but {n} at delta {delta}"), "poisson", case.clone());
            }
        }
        last = Some((rate, eps, delta, n as usize));
        // pmf equality (relative 1e-9) on a few k around the mean
        for k in [0u64, 1, (mean as u64).max(1), (mean as u64) + 3, n] {
            evals += 1;
            let p = Poisson { rate }.arrival_probability(d(delta), k as usize);
            let want = ln_pmf(mean, k).exp();
            let ok = if want < 1e-290 { p.abs() < 1e-280 || (p - want).abs() <= 1e-9 * want.max(1e-300) } else { (p - want).abs() <= 1e-9 * want };
            if !ok {
                ctx.violation("arrival::Poisson::arrival_probability#not-the-pmf", &format!("rate {rate} delta {delta} k {k}: {p:e}, Poisson pmf is {want:e}"), "poisson-pmf", json!({"rate": rate, "delta": delta, "k": k}));
                break;
            }
        }
        if samples.len() < 4 && (mean == 3.0 || mean == 130.0) && eps == 1e-3 {
            samples.push(json!({"rate": rate, "epsilon": eps, "delta": delta, "mean": mean, "returned": n, "cdf_at_returned": cdf[n as usize]}));
        }
    }
    // sparse processes (mean far below 1 up to a few arrivals) with exceedance probabilities down
    // to 1e-12: the upper tail decays like mean^k / k! only, so "a few standard deviations above
    // the mean" is nowhere near the quantile.  The oracle sums the upper tail directly (accurate
    // to relative 1e-12 where 1 - CDF cancels); band: relative 1e-6 of epsilon plus 5e-14 for
    // the rounding of a sum that is close to 1.
    let mut sparse_points = 0u64;
    {
        let tail = upper_tail;
        let mut small_means = vec![0.001, 0.002, 0.005, 0.01, 0.02, 0.05, 0.1, 0.2, 0.3, 0.5, 0.7, 0.9, 1.5, 2.5, 4.5];
        let mut all_eps = vec![0.5, 0.1, 1e-2, 1e-3, 1e-4, 1e-5, 1e-6, 1e-7, 1e-8, 1e-9, 1e-10, 1e-11, 1e-12];
        if !ctx.quick() {
            // thorough: a geometric ladder of 60 means between 1e-4 and ~6 and half-decade epsilons
            let mut m = 1e-4f64;
            while m < 6.0 {
                small_means.push(m);
                m *= 1.2;
            }
            for k in 1..=11 {
                all_eps.push(3.0 * 10f64.powi(-k - 1));
            }
            all_eps.sort_by(|a, b| b.partial_cmp(a).unwrap());
        }
        for m in small_means {
            for (rate, delta) in [(m, 1u64), (m / 8.0, 8u64), (m / 1000.0, 1000u64)] {
                let mean = rate * delta as f64;
                let mut prev: Option<(f64, u64)> = None;
                for eps in all_eps.iter().copied() {
                    evals += 1;
                    sparse_points += 1;
                    let case = json!({"rate": rate, "epsilon": eps, "delta": delta});
                    let n = match with_timeout(5.0, move || ApproximatedPoisson::new(rate, eps).number_arrivals(d(delta))) {
                        Ok(n) => n as u64,
                        Err(Some(e)) => {
                            ctx.violation("arrival::ApproximatedPoisson::number_arrivals#panic", &format!("rate {rate} eps {eps} delta {delta} (mean {mean}): panic {e}"), "poisson", case);
                            continue;
                        }
                        Err(None) => {
                            ctx.violation("arrival::ApproximatedPoisson::number_arrivals#does-not-terminate", &format!("rate {rate} eps {eps} delta {delta} (mean {mean}): no answer within the time cap"), "poisson", case);
                            break;
                        }
                    };
                    let band = 1e-6 * eps + 5e-14;
                    let t_n = tail(mean, n);
                    let ok_hi = t_n <= eps + band;
                    let ok_lo = n == 0 || tail(mean, n - 1) > eps - band;
                    if !ok_hi || !ok_lo {
                        let want = (0..200u64).find(|k| tail(mean, *k) <= eps).unwrap_or(200);
                        let sym = if !ok_hi { "below-quantile" } else { "above-quantile" };
                        ctx.violation(
                            &format!("arrival::ApproximatedPoisson::number_arrivals#{sym}+sparse"),
                            &format!("rate {rate} eps {eps} delta {delta} (mean {mean}): returned {n}, the (1-eps) quantile is {want} (P[N > {n}] = {t_n:e})"),
                            "poisson",
                            case.clone(),
                        );
                    }
                    // a smaller epsilon never lowers the quantile
                    if let Some((e0, n0)) = prev {
                        if n < n0 {
                            ctx.violation("arrival::ApproximatedPoisson::number_arrivals#not-monotone-in-epsilon+sparse", &format!("rate {rate} delta {delta}: {n0} for eps {e0} but {n} for eps {eps}"), "poisson", case.clone());
                        }
                    }
                    prev = Some((eps, n));
                    if mean >= 1.0 || eps <= 1e-6 {
                        nontrivial += 1;
                    }
                }
            }
        }
    }
    // a source with rate 0 never releases anything: the quantile is 0 for every interval
    for eps in [0.5, 1e-3, 1e-9] {
        for delta in [1u64, 10, 1000] {
            evals += 1;
            let case = json!({"rate": 0.0, "epsilon": eps, "delta": delta});
            match with_timeout(5.0, move || ApproximatedPoisson::new(0.0, eps).number_arrivals(d(delta))) {
                Ok(0) => {}
                Ok(n) => ctx.violation("arrival::ApproximatedPoisson::number_arrivals#above-quantile", &format!("rate 0 eps {eps} delta {delta}: returned {n}, nothing ever arrives"), "poisson", case),
                Err(Some(e)) => ctx.violation("arrival::ApproximatedPoisson::number_arrivals#panic", &format!("rate 0 eps {eps} delta {delta}: panic {e}"), "poisson", case),
                Err(None) => {
                    ctx.violation("arrival::ApproximatedPoisson::number_arrivals#does-not-terminate", &format!("rate 0 eps {eps} delta {delta}: no answer within the time cap"), "poisson", case);
                    break;
                }
            }
        }
    }
    let cov = json!({
        "evaluations": evals,
        "distinct_nontrivial": nontrivial,
        "rule": "every (rate, epsilon, delta) grid point with rate*delta in {0..50 densely, 60 ... 5000 sparsely}: number_arrivals (watchdog-guarded) vs the smallest n with CDF(n) >= 1-eps under an independent log-space pmf with compensated summation (tolerance band 1e-9 around the threshold); pmf compared at 5 points each; the object obtained through Poisson::approximate and a jittered clone must agree; non-trivial = mean >= 1",
        "grid_points": g.len(),
        "sparse_process_points": sparse_points,
        "sparse_process_rule": "means 0.001 .. 4.5 (15 values; thorough: plus a geometric ladder of 60 means from 1e-4 to 6; each as three rate/delta pairs) x epsilon 0.5 .. 1e-12 (13 values; thorough: 24): returned n must satisfy P[N > n] <= eps and P[N > n-1] > eps with the upper tail summed directly (band 1e-6*eps + 5e-14); a smaller epsilon never lowers the answer",
        "samples": samples,
        "exhaustive": true,
    });
    ("exploration".into(), cov, vec!["grid only: the continuous parameter space is outside what enumeration can decide".into(), "oracle accuracy: log-space pmf, Kahan summation; knife-edge cases within 1e-9 of the threshold are accepted either way".into()])
}

pub fn replay(kind: &str, case: &Value) -> bool {
    let rate = case["rate"].as_f64().unwrap();
    let delta = case["delta"].as_u64().unwrap();
    let mean = rate * delta as f64;
    if kind == "poisson-pmf" {
        let k = case["k"].as_u64().unwrap();
        let p = Poisson { rate }.arrival_probability(d(delta), k as usize);
        let want = ln_pmf(mean, k).exp();
        println!("replay: library {p:e} oracle {want:e}");
        return (p - want).abs() > 1e-9 * want.max(1e-300) && !(want < 1e-290 && p.abs() < 1e-280);
    }
    let eps = case["epsilon"].as_f64().unwrap();
    if kind == "poisson-approx" {
        let a = with_timeout(20.0, move || ApproximatedPoisson::new(rate, eps).number_arrivals(d(delta)));
        let b = with_timeout(20.0, move || Poisson { rate }.approximate(eps).number_arrivals(d(delta)));
        let c = if delta > 3 { with_timeout(20.0, move || ApproximatedPoisson::new(rate, eps).clone_with_jitter(d(3)).number_arrivals(d(delta - 3))) } else { a.clone() };
        println!("replay: new {:?}, approximate {:?}, jittered clone {:?}", a, b, c);
        return a.is_err() || a != b || a != c;
    }
    match with_timeout(20.0, move || ApproximatedPoisson::new(rate, eps).number_arrivals(d(delta))) {
        Ok(n) => {
            if delta == 0 {
                return n != 0;
            }
            let cdf = cdf_table(mean, (mean + 12.0 * mean.sqrt() + 60.0) as u64 + n as u64);
            let want = (0..cdf.len()).find(|k| cdf[*k] >= 1.0 - eps).unwrap_or(cdf.len());
            println!("replay: library {n}, quantile {want}");
            if mean < 5.0 {
                // sparse processes: the direct upper tail decides (see run)
                let band = 1e-6 * eps + 5e-14;
                let (t1, t0) = (upper_tail(mean, n as u64), if n == 0 { 1.0 } else { upper_tail(mean, n as u64 - 1) });
                println!("replay: P[N > {n}] = {t1:e}, P[N > {n} - 1] = {t0:e}, epsilon {eps:e}");
                return !(t1 <= eps + band && (n == 0 || t0 > eps - band));
            }
            !(cdf[n] >= 1.0 - eps - 1e-9 && (n == 0 || cdf[n - 1] < 1.0 - eps + 1e-9))
        }
        Err(e) => {
            println!("replay: {:?}", e);
            true
        }
    }
}
