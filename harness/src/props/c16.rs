//! C16: request-bound functions compose arrival and cost models additively.

use crate::props::c11::RbSpec;
use crate::spec::*;
use crate::util::{catch, Ctx};
use response_time_analysis::arrival::ArrivalBound;
use response_time_analysis::demand::{Aggregate, AggregateRequestBound, RequestBound, Slice};
use response_time_analysis::wcet::JobCostModel;
use serde_json::{json, Value};
use std::rc::Rc;

/// job costs in an interval, recomputed from the components
fn items(spec: &RbSpec, delta: u64) -> Vec<u64> {
    match spec {
        RbSpec::Rbf(a, c) => {
            let n = a.build().number_arrivals(d(delta));
            c.build().job_cost_iter().take(n).map(su).collect()
        }
        RbSpec::Aggregate(v) | RbSpec::Slice(v) => v.iter().flat_map(|x| items(x, delta)).collect(),
        RbSpec::Boxed(i) => items(i, delta),
    }
}

fn components(spec: &RbSpec) -> Option<&Vec<RbSpec>> {
    match spec {
        RbSpec::Aggregate(v) | RbSpec::Slice(v) => Some(v),
        _ => None,
    }
}

pub fn menu(quick: bool) -> Vec<RbSpec> {
    let arrs = vec![
        ArrSpec::Never,
        ArrSpec::Periodic { t: 3 },
        ArrSpec::Sporadic { t: 4, j: 6 },
        ArrSpec::Sporadic { t: 2, j: 1 },
        ArrSpec::Curve { dmin: vec![0, 0, 5] },
        ArrSpec::ExtCurve { dmin: vec![1, 3, 6] },
        ArrSpec::Jitter { inner: Box::new(ArrSpec::Curve { dmin: vec![2, 6] }), j: 3 },
        ArrSpec::Sum(vec![ArrSpec::Periodic { t: 5 }, ArrSpec::Sporadic { t: 7, j: 2 }]),
        ArrSpec::Prefix { horizon: 8, steps: vec![(1, 1), (3, 2), (7, 3)] },
    ];
    let costs = vec![
        CostSpec::Scalar(0),
        CostSpec::Scalar(2),
        CostSpec::Multiframe(vec![3, 1]),
        CostSpec::Multiframe(vec![0, 2, 5]),
        CostSpec::Curve(vec![4, 5, 7]),
        CostSpec::ExtCurve(vec![3, 4, 6]),
        CostSpec::CurveFromTrace { costs: vec![1, 3, 2, 2, 4], max_n: 3 },
    ];
    let mut leaves = vec![];
    for a in &arrs {
        for c in &costs {
            leaves.push(RbSpec::Rbf(a.clone(), c.clone()));
        }
    }
    let mut v = leaves.clone();
    let step = if quick { 4 } else { 1 };
    for (i, a) in leaves.iter().enumerate().step_by(step) {
        v.push(RbSpec::Boxed(Box::new(a.clone())));
        for (k, b) in leaves.iter().enumerate().step_by(step + 1) {
            v.push(RbSpec::Aggregate(vec![a.clone(), b.clone()]));
            v.push(RbSpec::Slice(vec![a.clone(), b.clone()]));
            if (i + k) % 5 == 0 {
                v.push(RbSpec::Aggregate(vec![RbSpec::Slice(vec![a.clone(), b.clone()]), RbSpec::Boxed(Box::new(b.clone())), a.clone()]));
                v.push(RbSpec::Slice(vec![RbSpec::Aggregate(vec![b.clone()]), RbSpec::Aggregate(vec![]), a.clone()]));
            }
        }
    }
    v.push(RbSpec::Aggregate(vec![]));
    v.push(RbSpec::Slice(vec![]));
    // wide compositions (four to six components, rotated)
    let wide: Vec<RbSpec> = vec![
        RbSpec::Rbf(ArrSpec::Sporadic { t: 5, j: 0 }, CostSpec::Scalar(1)),
        RbSpec::Rbf(ArrSpec::Sporadic { t: 7, j: 3 }, CostSpec::Scalar(2)),
        RbSpec::Rbf(ArrSpec::Periodic { t: 4 }, CostSpec::Multiframe(vec![1, 3])),
        RbSpec::Rbf(ArrSpec::Sporadic { t: 6, j: 5 }, CostSpec::Scalar(2)),
        RbSpec::Rbf(ArrSpec::Curve { dmin: vec![0, 9] }, CostSpec::Curve(vec![4, 5, 7])),
        RbSpec::Rbf(ArrSpec::Sporadic { t: 11, j: 0 }, CostSpec::Multiframe(vec![2, 1])),
    ];
    for n in 4..=wide.len() {
        for rot in 0..n {
            let comps: Vec<RbSpec> = (0..n).map(|k| wide[(k + rot) % n].clone()).collect();
            v.push(RbSpec::Aggregate(comps.clone()));
            v.push(RbSpec::Slice(comps));
        }
    }
    // the cost-model dimension exhaustively: every multiframe vector up to the stated length
    // over {0..3} (frames that average to the first one, zero-cost frames, ...), under bursty
    // arrivals, alone and as a component
    let maxlen = if quick { 3 } else { 4 };
    let other = RbSpec::Rbf(ArrSpec::Sporadic { t: 3, j: 4 }, CostSpec::Multiframe(vec![1, 0, 2]));
    for len in 1..=maxlen {
        for idx in 0..4u64.pow(len as u32) {
            let frames: Vec<u64> = crate::props::uni::product_index(idx, 4, len).iter().map(|x| *x as u64).collect();
            for a in [ArrSpec::Sporadic { t: 4, j: 6 }, ArrSpec::Sporadic { t: 2, j: 1 }, ArrSpec::Curve { dmin: vec![0, 0, 5] }] {
                let leaf = RbSpec::Rbf(a, CostSpec::Multiframe(frames.clone()));
                v.push(leaf.clone());
                v.push(RbSpec::Aggregate(vec![other.clone(), leaf.clone()]));
                v.push(RbSpec::Slice(vec![leaf, other.clone()]));
            }
        }
    }
    v
}

fn check(spec: &RbSpec, h: u64, out: &mut Vec<(String, String)>) -> u64 {
    let mut nontrivial = 0;
    let name = match spec {
        RbSpec::Rbf(..) => "demand::RBF",
        RbSpec::Aggregate(_) => "demand::Aggregate",
        RbSpec::Slice(_) => "demand::Slice",
        RbSpec::Boxed(_) => "Box<dyn RequestBound>",
    };
    spec.with(&mut |rb| {
        for delta in 0..=h {
            let it = items(spec, delta);
            let total: u64 = it.iter().sum();
            if it.len() > 2 {
                nontrivial += 1;
            }
            let sn = su(rb.service_needed(d(delta)));
            if sn != total {
                out.push((format!("{name}::service_needed#not-sum-of-job-costs"), format!("{:?}: service_needed({delta}) = {sn}, recomputed from the components: {total}", spec)));
            }
            let jc: Vec<u64> = rb.job_cost_iter(d(delta)).map(su).collect();
            let mut a = jc.clone();
            let mut b = it.clone();
            a.sort();
            b.sort();
            if a != b {
                out.push((format!("{name}::job_cost_iter#differs-from-components"), format!("{:?}: job_cost_iter({delta}) = {:?}, components give {:?}", spec, jc, it)));
            }
            let lw = su(rb.least_wcet_in_interval(d(delta)));
            if let Some(m) = it.iter().min() {
                if lw > *m {
                    out.push((format!("{name}::least_wcet_in_interval#larger-than-smallest-job"), format!("{:?}: least_wcet_in_interval({delta}) = {lw} but a job of cost {m} is in the interval", spec)));
                }
            }
            let mut sorted = it.clone();
            sorted.sort_by(|x, y| y.cmp(x));
            let mut prev = 0;
            for n in 0..=it.len() + 2 {
                let want: u64 = sorted.iter().take(n).sum();
                let got = su(rb.service_needed_by_n_jobs(d(delta), n));
                if got != want {
                    out.push((format!("{name}::service_needed_by_n_jobs#not-n-largest"), format!("{:?}: service_needed_by_n_jobs({delta}, {n}) = {got}, the {n} largest job costs sum to {want}", spec)));
                }
                if got < prev || got > sn || (n >= it.len() && got != sn) {
                    out.push((format!("{name}::service_needed_by_n_jobs#law"), format!("{:?}: service_needed_by_n_jobs({delta}, {n}) = {got} (previous {prev}, service_needed {sn}, jobs {})", spec, it.len())));
                }
                prev = got;
            }
        }
    });
    // huge job limits ("no limit") never change the answer
    spec.with(&mut |rb| {
        for delta in [1u64, h / 2, h] {
            let total: u64 = items(spec, delta).iter().sum();
            // (limits of 2^60 and more: an implementation that sizes a buffer by the limit fails
            // with a catchable "capacity overflow" there; at 2^40 it would exhaust memory and
            // abort the whole process — those are asked in C20's shard subprocesses)
            for n in [usize::MAX, usize::MAX - 1, 1usize << 62, 1 << 60] {
                let got = su(rb.service_needed_by_n_jobs(d(delta), n));
                if got != total {
                    out.push((format!("{name}::service_needed_by_n_jobs#law+huge-limit"), format!("{:?}: service_needed_by_n_jobs({delta}, {n}) = {got}, service_needed = {total}", spec)));
                }
            }
        }
    });
    // per-component variant
    if let Some(comps) = components(spec) {
        let parts: Vec<Rc<dyn RequestBound>> = comps.iter().map(|x| x.rc()).collect();
        let per = |delta: u64, n: usize| -> u64 {
            match spec {
                RbSpec::Aggregate(_) => su(Aggregate::new(parts.clone()).service_needed_by_n_jobs_per_component(d(delta), n)),
                _ => su(Slice::of(&parts[..]).service_needed_by_n_jobs_per_component(d(delta), n)),
            }
        };
        for delta in 0..=h {
            for n in 0..=4 {
                let want: u64 = comps
                    .iter()
                    .map(|c| {
                        let mut it = items(c, delta);
                        it.sort_by(|x, y| y.cmp(x));
                        it.iter().take(n).sum::<u64>()
                    })
                    .sum();
                let got = per(delta, n);
                if got != want {
                    out.push((format!("{name}::service_needed_by_n_jobs_per_component#not-sum-of-restricted-demands"), format!("{:?}: per-component({delta}, {n}) = {got}, components give {want}", spec)));
                }
            }
        }
    }
    nontrivial
}

/// intervals with hundreds of jobs (dense arrivals), a handful of job limits each
fn many_jobs(ctx: &mut Ctx, evals: &mut u64) {
    let dense = [ArrSpec::Sporadic { t: 1, j: 0 }, ArrSpec::Sporadic { t: 2, j: 7 }, ArrSpec::Periodic { t: 3 }];
    let costs = [CostSpec::Multiframe(vec![1, 2]), CostSpec::Multiframe(vec![2, 5, 9]), CostSpec::Scalar(3), CostSpec::Curve(vec![4, 5, 7])];
    let mut specs = vec![];
    for a in &dense {
        for c in &costs {
            specs.push(RbSpec::Rbf(a.clone(), c.clone()));
        }
    }
    specs.push(RbSpec::Aggregate(vec![specs[0].clone(), specs[5].clone(), specs[10].clone()]));
    specs.push(RbSpec::Slice(vec![specs[1].clone(), specs[4].clone(), specs[2].clone()]));
    specs.push(RbSpec::Boxed(Box::new(specs[1].clone())));
    let deltas: Vec<u64> = if ctx.quick() { vec![270, 1030] } else { vec![130, 270, 520, 1030, 2100] };
    for spec in &specs {
        for delta in &deltas {
            *evals += 1;
            let r = catch(|| {
                let mut sorted = items(spec, *delta);
                sorted.sort_by(|x, y| y.cmp(x));
                let jobs = sorted.len();
                let mut bad = None;
                spec.with(&mut |rb| {
                    for n in [0usize, 1, 2, 5, 17, jobs / 2, jobs.saturating_sub(1), jobs, jobs + 3] {
                        let want: u64 = sorted.iter().take(n).sum();
                        let got = su(rb.service_needed_by_n_jobs(d(*delta), n));
                        if got != want && bad.is_none() {
                            bad = Some(format!("service_needed_by_n_jobs({delta}, {n}) = {got}, the {n} largest of the {jobs} job costs sum to {want}"));
                        }
                    }
                });
                bad
            });
            let name = match spec {
                RbSpec::Rbf(..) => "demand::RBF",
                RbSpec::Aggregate(_) => "demand::Aggregate",
                RbSpec::Slice(_) => "demand::Slice",
                RbSpec::Boxed(_) => "Box<dyn RequestBound>",
            };
            match r {
                Ok(None) => {}
                Ok(Some(w)) => ctx.violation(&format!("{name}::service_needed_by_n_jobs#not-n-largest+many-jobs"), &format!("{:?}: {w}", spec), "rb-many", json!({"spec": spec, "delta": delta})),
                Err(e) => ctx.violation("demand#panic", &format!("{:?} at delta {delta}: panic {e}", spec), "rb-many", json!({"spec": spec, "delta": delta})),
            }
        }
    }
}

pub fn run(ctx: &mut Ctx) -> (String, Value, Vec<String>) {
    crate::util::silence_panics();
    let h = if ctx.quick() { 24 } else { 40 };
    let specs = menu(ctx.quick());
    let mut evals = 0u64;
    let mut nontrivial = 0u64;
    let mut samples = vec![];
    for spec in &specs {
        evals += h + 1;
        let mut out = vec![];
        match catch(|| check(spec, h, &mut out)) {
            Ok(nt) => nontrivial += nt,
            Err(e) => out.push(("demand#panic".into(), format!("{:?}: panic {e}", spec))),
        }
        out.dedup_by(|a, b| a.0 == b.0);
        for (k, w) in out {
            ctx.violation(&k, &w, "rb-compose", json!({"spec": spec, "h": h}));
        }
        if samples.len() < 3 && matches!(spec, RbSpec::Aggregate(v) if v.len() == 3) {
            samples.push(json!({"spec": spec, "job_costs_at_delta_9": items(spec, 9)}));
        }
    }
    many_jobs(ctx, &mut evals);
    let cov = json!({
        "evaluations": evals,
        "distinct_nontrivial": nontrivial,
        "rule": format!("every request bound of the box ({} compositions: RBF over 9 arrival x 7 cost models, boxed, Aggregate/Slice pairs, two nesting levels; plus every multiframe vector of length <= 3/4 over {{0..3}} under three bursty arrival models, alone and as an Aggregate/Slice component) x every delta 0..={h} x every job limit 0..=jobs+2 and four limits near usize::MAX; 15 dense request bounds at intervals holding hundreds to thousands of jobs x nine job limits: all identities of the statement recomputed from the components; non-trivial = (spec, delta) points with more than two jobs", specs.len()),
        "compositions": specs.len(),
        "samples": samples,
        "exhaustive": true,
    });
    ("exploration".into(), cov, vec!["job costs per component are obtained by black-box calls on separately built components".into()])
}

pub fn replay(case: &Value) -> bool {
    let spec: RbSpec = serde_json::from_value(case["spec"].clone()).unwrap();
    if let Some(delta) = case.get("delta").and_then(|x| x.as_u64()) {
        let r = catch(|| {
            let mut sorted = items(&spec, delta);
            sorted.sort_by(|x, y| y.cmp(x));
            let jobs = sorted.len();
            let mut bad = false;
            spec.with(&mut |rb| {
                for n in [0usize, 1, 2, 5, 17, jobs / 2, jobs.saturating_sub(1), jobs, jobs + 3] {
                    let want: u64 = sorted.iter().take(n).sum();
                    let got = su(rb.service_needed_by_n_jobs(d(delta), n));
                    if got != want {
                        println!("replay: service_needed_by_n_jobs({delta}, {n}) = {got}, want {want}");
                        bad = true;
                    }
                }
            });
            bad
        });
        return r.unwrap_or(true);
    }
    let h = case["h"].as_u64().unwrap_or(24);
    let mut out = vec![];
    let r = catch(|| check(&spec, h, &mut out));
    for (k, w) in out.iter().take(3) {
        println!("replay: {k}: {w}");
    }
    r.is_err() || !out.is_empty()
}
