//! C17 (monotonicity under hardening) and C19 (agreement of analyses on common special cases).

use crate::analysis::*;
use crate::spec::*;
use crate::util::{catch, Ctx};
use rayon::prelude::*;
use serde_json::{json, Value};
use std::sync::atomic::{AtomicU64, Ordering};
use std::sync::Mutex;

const LIMIT: u64 = 60;

fn ts(t: u64, j: u64, c: u64, dl: u64, last: u64, maxseg: u64) -> TaskSpec {
    TaskSpec {
        arr: ArrSpec::Sporadic { t, j },
        cost: CostSpec::Scalar(c),
        deadline: dl,
        last_seg: last,
        max_seg: maxseg,
    }
}

fn tsa(arr: &ArrSpec, c: u64, dl: u64, last: u64, maxseg: u64) -> TaskSpec {
    TaskSpec {
        arr: arr.clone(),
        cost: CostSpec::Scalar(c),
        deadline: dl,
        last_seg: last,
        max_seg: maxseg,
    }
}

fn sporadic_params(a: &ArrSpec) -> Option<(u64, u64)> {
    match a {
        ArrSpec::Sporadic { t, j } => Some((*t, *j)),
        _ => None,
    }
}

/// harder(a, b): is outcome b at least as pessimistic as a?
fn not_more_optimistic(easy: &Outcome, hard: &Outcome) -> bool {
    match (easy, hard) {
        (Outcome::Ok(a), Outcome::Ok(b)) => b >= a,
        (Outcome::Ok(_), _) => true,
        (_, Outcome::Ok(_)) => false,
        _ => true,
    }
}

/// all single-parameter hardenings of a uniprocessor case, with a label
pub fn harden_uni(c: &UniCase) -> Vec<(String, UniCase)> {
    let mut out = vec![];
    let relevant: Vec<usize> = if c.ana.is_fp() { (0..=c.tua).collect() } else { (0..c.tasks.len()).collect() };
    for k in relevant {
        let mut h = c.clone();
        let cc = h.tasks[k].cost.scalar();
        h.tasks[k].cost = CostSpec::Scalar(cc + 1);
        // keep segment parameters consistent with "all of the job is one segment" conventions
        if c.ana == Ana::EdfNp {
            h.tasks[k].max_seg = cc + 1;
        }
        out.push((format!("wcet+1 of task {k}"), h));
        if let Some((t, j)) = sporadic_params(&c.tasks[k].arr) {
            let mut h = c.clone();
            h.tasks[k].arr = ArrSpec::Sporadic { t, j: j + 1 };
            out.push((format!("jitter+1 of task {k}"), h));
            if t > 1 {
                let mut h = c.clone();
                h.tasks[k].arr = ArrSpec::Sporadic { t: t - 1, j };
                out.push((format!("period-1 of task {k}"), h));
            }
        } else {
            let mut h = c.clone();
            h.tasks[k].arr = ArrSpec::Jitter { inner: Box::new(c.tasks[k].arr.clone()), j: 1 };
            out.push((format!("added jitter 1 on task {k}"), h));
        }
        if k != c.tua && matches!(c.ana, Ana::EdfLp | Ana::EdfFl) {
            let mut h = c.clone();
            h.tasks[k].max_seg += 1;
            out.push((format!("non-preemptive segment+1 of task {k}"), h));
        }
    }
    if c.ana.is_fp() && c.ana != Ana::FpP {
        let mut h = c.clone();
        h.blocking += 1;
        out.push(("blocking+1".into(), h));
    }
    // one more interfering task
    // (the third one: a late deadline and a short non-preemptive region — a potential blocker
    // that must not lower the blocking term of the others)
    let mut extras = vec![ts(5, 0, 1, 4, 1, 1), ts(3, 2, 2, 9, 1, 2), ts(9, 0, 1, 40, 1, 1)];
    if c.tasks.len() == 1 {
        // a tiny, rare task next to a task that was alone
        extras.push(ts(60, 0, 1, 70, 1, 1));
    }
    for extra in extras {
        let mut h = c.clone();
        if c.ana.is_fp() {
            h.tasks.insert(0, extra);
            h.tua += 1;
        } else {
            h.tasks.push(extra);
        }
        out.push(("one more interfering task".into(), h));
    }
    out
}

pub fn uni_bases(quick: bool) -> Vec<UniCase> {
    let ts_: Vec<u64> = if quick { vec![2, 4, 6] } else { vec![2, 3, 4, 5, 7] };
    let js: Vec<u64> = if quick { vec![0, 3] } else { vec![0, 1, 3, 8] };
    let cs: Vec<u64> = if quick { vec![1, 2] } else { vec![1, 2, 3] };
    let dls: Vec<u64> = if quick { vec![2, 7] } else { vec![1, 4, 7, 12] };
    let mut per = vec![];
    for t in &ts_ {
        for j in &js {
            for c in &cs {
                per.push((*t, *j, *c));
            }
        }
    }
    let mut v = vec![];
    for a in &per {
        for b in &per {
            for ana in ALL_ANA {
                let lasts: Vec<u64> = if matches!(ana, Ana::FpLp | Ana::EdfLp) { vec![1, b.2] } else { vec![1] };
                let dlist: Vec<(u64, u64)> = if ana.is_edf() { dls.iter().flat_map(|x| dls.iter().map(move |y| (*x, *y))).collect() } else { vec![(0, 0)] };
                let bbs: Vec<u64> = if ana.is_fp() && ana != Ana::FpP { vec![0, 2] } else { vec![0] };
                for last in &lasts {
                    for (d0, d1) in &dlist {
                        for bb in &bbs {
                            let np0 = if ana == Ana::EdfNp { a.2 } else if matches!(ana, Ana::EdfLp | Ana::EdfFl) { 1.max(a.2 - a.2 / 2) } else { 1 };
                            if matches!(ana, Ana::EdfLp | Ana::EdfFl) && a.2 > np0 {
                                // the same system with the other task's longest region = its WCET
                                v.push(UniCase {
                                    ana,
                                    tasks: vec![ts(a.0, a.1, a.2, *d0, 1, a.2), ts(b.0, b.1, b.2, *d1, *last, 1)],
                                    tua: 1,
                                    blocking: *bb,
                                    limit: LIMIT,
                                });
                            }
                            v.push(UniCase {
                                ana,
                                tasks: vec![ts(a.0, a.1, a.2, *d0, 1, np0), ts(b.0, b.1, b.2, *d1, *last, 1)],
                                tua: 1,
                                blocking: *bb,
                                limit: LIMIT,
                            });
                        }
                    }
                }
            }
        }
    }
    // a task on its own (no interfering task at all): "one more interfering task" then is the
    // step from zero to one, where an implementation may switch between code paths
    for t in [2u64, 3, 4, 5, 7] {
        for j in [0u64, 1, 2, 3, 8] {
            for c in [1u64, 2, 3] {
                for ana in ALL_ANA {
                    let bbs: Vec<u64> = if ana.is_fp() && ana != Ana::FpP { vec![0, 2] } else { vec![0] };
                    for bb in bbs {
                        v.push(UniCase { ana, tasks: vec![ts(t, j, c, 7, 1, 1)], tua: 0, blocking: bb, limit: LIMIT });
                    }
                }
            }
        }
    }
    for ana in ALL_ANA {
        for a in [ArrSpec::ExtCurve { dmin: vec![1, 3, 7] }, ArrSpec::Curve { dmin: vec![0, 4] }, ArrSpec::ExtCurve { dmin: vec![2, 5] }] {
            v.push(UniCase { ana, tasks: vec![TaskSpec { arr: a, cost: CostSpec::Scalar(2), deadline: 9, last_seg: 1, max_seg: 1 }], tua: 0, blocking: 0, limit: LIMIT });
        }
    }
    // curve-based arrivals on a few systems
    for ana in ALL_ANA {
        for (a0, a1) in [
            (ArrSpec::Curve { dmin: vec![0, 4] }, ArrSpec::ExtCurve { dmin: vec![2, 5] }),
            (ArrSpec::ExtCurve { dmin: vec![1, 3, 7] }, ArrSpec::Sporadic { t: 5, j: 2 }),
        ] {
            v.push(UniCase {
                ana,
                tasks: vec![
                    TaskSpec { arr: a0, cost: CostSpec::Scalar(1), deadline: 6, last_seg: 1, max_seg: 1 },
                    TaskSpec { arr: a1, cost: CostSpec::Scalar(2), deadline: 9, last_seg: 1, max_seg: 1 },
                ],
                tua: 1,
                blocking: 0,
                limit: LIMIT,
            });
        }
    }
    v
}

fn weaker_supplies(s: &SupplySpec) -> Vec<(String, SupplySpec)> {
    let mut v = vec![];
    match s {
        SupplySpec::Dedicated => {
            v.push(("dedicated -> periodic(2,3)".into(), SupplySpec::Periodic { q: 2, p: 3 }));
            v.push(("dedicated -> constrained(1,1,2)".into(), SupplySpec::Constrained { q: 1, dl: 1, p: 2 }));
        }
        SupplySpec::Periodic { q, p } => {
            if *q > 1 {
                v.push(("budget-1".into(), SupplySpec::Periodic { q: q - 1, p: *p }));
            }
        }
        SupplySpec::Constrained { q, dl, p } => {
            if *q > 1 {
                v.push(("budget-1".into(), SupplySpec::Constrained { q: q - 1, dl: *dl, p: *p }));
            }
            if dl < p {
                v.push(("deadline+1".into(), SupplySpec::Constrained { q: *q, dl: dl + 1, p: *p }));
            }
        }
        SupplySpec::Opaque(i) => {
            for (n, w) in weaker_supplies(i) {
                v.push((n, SupplySpec::Opaque(Box::new(w))));
            }
        }
    }
    v
}

fn harden_ac(x: &AC) -> Vec<(String, AC)> {
    let mut v = vec![];
    if let CostSpec::Scalar(c) = x.1 {
        v.push(("wcet+1".into(), (x.0.clone(), CostSpec::Scalar(c + 1))));
    }
    if let Some((t, j)) = sporadic_params(&x.0) {
        v.push(("jitter+1".into(), (ArrSpec::Sporadic { t, j: j + 1 }, x.1.clone())));
        if t > 1 {
            v.push(("period-1".into(), (ArrSpec::Sporadic { t: t - 1, j }, x.1.clone())));
        }
    } else {
        v.push(("added jitter 1".into(), (ArrSpec::Jitter { inner: Box::new(x.0.clone()), j: 1 }, x.1.clone())));
    }
    v
}

pub fn harden_ros(c: &RosCase) -> Vec<(String, RosCase)> {
    let mut out = vec![];
    let extra: AC = (ArrSpec::Sporadic { t: 7, j: 1 }, CostSpec::Scalar(1));
    // supply
    let sup = match c {
        RosCase::EventSource { supply, .. } | RosCase::Timer { supply, .. } | RosCase::Pp { supply, .. } | RosCase::Chain { supply, .. } | RosCase::ChainSummed { supply, .. } | RosCase::ChainGeneral { supply, .. } | RosCase::Sub { supply, .. } => supply.clone(),
    };
    for (n, w) in weaker_supplies(&sup) {
        let mut h = c.clone();
        match &mut h {
            RosCase::EventSource { supply, .. } | RosCase::Timer { supply, .. } | RosCase::Pp { supply, .. } | RosCase::Chain { supply, .. } | RosCase::ChainSummed { supply, .. } | RosCase::ChainGeneral { supply, .. } | RosCase::Sub { supply, .. } => *supply = w,
        }
        out.push((format!("supply: {n}"), h));
    }
    match c {
        RosCase::EventSource { demand, .. } => {
            for k in 0..demand.len() {
                for (n, x) in harden_ac(&demand[k]) {
                    let mut h = c.clone();
                    if let RosCase::EventSource { demand, .. } = &mut h {
                        demand[k] = x;
                    }
                    out.push((format!("{n} of source {k}"), h));
                }
            }
            let mut h = c.clone();
            if let RosCase::EventSource { demand, .. } = &mut h {
                demand.push(extra.clone());
            }
            out.push(("one more source".into(), h));
        }
        RosCase::Timer { own, hp, .. } => {
            for (n, x) in harden_ac(own) {
                let mut h = c.clone();
                if let RosCase::Timer { own, .. } = &mut h {
                    *own = x;
                }
                out.push((format!("{n} of own"), h));
            }
            for k in 0..hp.len() {
                for (n, x) in harden_ac(&hp[k]) {
                    let mut h = c.clone();
                    if let RosCase::Timer { hp, .. } = &mut h {
                        hp[k] = x;
                    }
                    out.push((format!("{n} of hp timer {k}"), h));
                }
            }
            let mut h = c.clone();
            if let RosCase::Timer { blocking, .. } = &mut h {
                *blocking += 1;
            }
            out.push(("blocking+1".into(), h));
            let mut h = c.clone();
            if let RosCase::Timer { hp, .. } = &mut h {
                hp.push(extra.clone());
            }
            out.push(("one more hp timer".into(), h));
        }
        RosCase::Pp { own, others, .. } => {
            for (n, x) in harden_ac(own) {
                let mut h = c.clone();
                if let RosCase::Pp { own, .. } = &mut h {
                    *own = x;
                }
                out.push((format!("{n} of own"), h));
            }
            for k in 0..others.len() {
                for (n, x) in harden_ac(&others[k]) {
                    let mut h = c.clone();
                    if let RosCase::Pp { others, .. } = &mut h {
                        others[k] = x;
                    }
                    out.push((format!("{n} of callback {k}"), h));
                }
            }
            let mut h = c.clone();
            if let RosCase::Pp { others, .. } = &mut h {
                others.push(extra.clone());
            }
            out.push(("one more callback".into(), h));
        }
        RosCase::Chain { src, costs, others, .. } => {
            for k in 0..costs.len() {
                let mut h = c.clone();
                if let RosCase::Chain { costs, .. } = &mut h {
                    costs[k] = CostSpec::Scalar(costs[k].scalar() + 1);
                }
                out.push((format!("wcet+1 of chain callback {k}"), h));
            }
            for (n, x) in harden_ac(&(src.clone(), CostSpec::Scalar(1))) {
                if n == "wcet+1" {
                    continue;
                }
                let mut h = c.clone();
                if let RosCase::Chain { src, .. } = &mut h {
                    *src = x.0;
                }
                out.push((format!("{n} of chain source"), h));
            }
            for k in 0..others.len() {
                for (n, x) in harden_ac(&others[k]) {
                    let mut h = c.clone();
                    if let RosCase::Chain { others, .. } = &mut h {
                        others[k] = x;
                    }
                    out.push((format!("{n} of other callback {k}"), h));
                }
            }
            let mut h = c.clone();
            if let RosCase::Chain { others, .. } = &mut h {
                others.push(extra.clone());
            }
            out.push(("one more callback".into(), h));
        }
        RosCase::ChainGeneral { .. } => {}
        RosCase::ChainSummed { costs, others, .. } => {
            for k in 0..costs.len() {
                let mut h = c.clone();
                if let RosCase::ChainSummed { costs, .. } = &mut h {
                    costs[k] += 1;
                }
                out.push((format!("wcet+1 of chain callback {k}"), h));
            }
            for k in 0..others.len() {
                for (n, x) in harden_ac(&others[k]) {
                    let mut h = c.clone();
                    if let RosCase::ChainSummed { others, .. } = &mut h {
                        others[k] = x;
                    }
                    out.push((format!("{n} of other callback {k}"), h));
                }
            }
            let mut h = c.clone();
            if let RosCase::ChainSummed { others, .. } = &mut h {
                others.push(extra.clone());
            }
            out.push(("one more callback".into(), h));
        }
        RosCase::Sub { workload, .. } => {
            for k in 0..workload.len() {
                for (n, x) in harden_ac(&(workload[k].arr.clone(), workload[k].cost.clone())) {
                    let mut h = c.clone();
                    if let RosCase::Sub { workload, .. } = &mut h {
                        workload[k].arr = x.0;
                        workload[k].cost = x.1;
                    }
                    out.push((format!("{n} of callback {k}"), h));
                }
            }
            for kind in [Kind::Timer, Kind::PolledUnknown, Kind::Polled(0), Kind::Polled(9)] {
                let mut h = c.clone();
                if let RosCase::Sub { workload, .. } = &mut h {
                    workload.push(CbCase { arr: extra.0.clone(), cost: extra.1.clone(), kind, assumed: 6 });
                }
                out.push((format!("one more callback ({:?})", kind), h));
            }
        }
    }
    out
}

pub fn ros_bases(quick: bool) -> Vec<RosCase> {
    let sups = vec![
        SupplySpec::Dedicated,
        SupplySpec::Periodic { q: 2, p: 3 },
        SupplySpec::Periodic { q: 3, p: 5 },
        SupplySpec::Constrained { q: 2, dl: 3, p: 5 },
        SupplySpec::Constrained { q: 1, dl: 1, p: 3 },
        SupplySpec::Opaque(Box::new(SupplySpec::Constrained { q: 2, dl: 2, p: 4 })),
    ];
    let mut m: Vec<AC> = vec![];
    let tl: Vec<u64> = if quick { vec![3, 4, 6, 9] } else { vec![3, 4, 5, 6, 9, 12] };
    let jl: Vec<u64> = if quick { vec![0, 3] } else { vec![0, 3, 8] };
    let cl: Vec<u64> = if quick { vec![1, 2] } else { vec![1, 2, 4] };
    for t in &tl {
        for j in jl.clone() {
            for c in cl.clone() {
                m.push((ArrSpec::Sporadic { t: *t, j }, CostSpec::Scalar(c)));
            }
        }
    }
    m.push((ArrSpec::ExtCurve { dmin: vec![1, 5] }, CostSpec::Scalar(1)));
    // a costly callback whose jitter exceeds its period (bursts), and a cheap frequent one
    m.push((ArrSpec::Sporadic { t: 6, j: 8 }, CostSpec::Scalar(4)));
    m.push((ArrSpec::Sporadic { t: 5, j: 0 }, CostSpec::Scalar(1)));
    let mut v = vec![];
    for sup in &sups {
        for a in &m {
            v.push(RosCase::EventSource { supply: sup.clone(), demand: vec![a.clone()], limit: 120 });
            // a callback on its own: "one more callback" is then the step from nothing to something
            v.push(RosCase::Timer { supply: sup.clone(), own: a.clone(), hp: vec![], blocking: 1, limit: 120 });
            v.push(RosCase::Pp { supply: sup.clone(), own: a.clone(), others: vec![], limit: 120 });
            v.push(RosCase::Chain { supply: sup.clone(), src: a.0.clone(), costs: vec![CostSpec::Scalar(1), a.1.clone()], others: vec![], limit: 120 });
            for bw in [false, true] {
                for k0 in [Kind::Timer, Kind::PolledUnknown, Kind::EventSource, Kind::Polled(1)] {
                    v.push(RosCase::Sub { bw, supply: sup.clone(), workload: vec![CbCase { arr: a.0.clone(), cost: a.1.clone(), kind: k0, assumed: 5 }], subchain: vec![0], limit: 120 });
                }
            }
            for b in &m {
                v.push(RosCase::EventSource { supply: sup.clone(), demand: vec![a.clone(), b.clone()], limit: 120 });
                v.push(RosCase::Timer { supply: sup.clone(), own: a.clone(), hp: vec![b.clone()], blocking: 1, limit: 120 });
                v.push(RosCase::Pp { supply: sup.clone(), own: a.clone(), others: vec![b.clone()], limit: 120 });
                v.push(RosCase::Chain { supply: sup.clone(), src: a.0.clone(), costs: vec![CostSpec::Scalar(1), a.1.clone()], others: vec![b.clone()], limit: 120 });
                v.push(RosCase::ChainSummed { supply: sup.clone(), src: a.0.clone(), costs: vec![2, 1, a.1.wcet()], others: vec![b.clone()], limit: 120 });
                for bw in [false, true] {
                    for (k0, k1) in [(Kind::Polled(1), Kind::Polled(2)), (Kind::Polled(2), Kind::Polled(1)), (Kind::Timer, Kind::PolledUnknown), (Kind::PolledUnknown, Kind::EventSource), (Kind::PolledUnknown, Kind::Timer), (Kind::Polled(1), Kind::Timer), (Kind::Timer, Kind::Timer)] {
                        for sc in [vec![0usize], vec![1, 0]] {
                            v.push(RosCase::Sub {
                                bw,
                                supply: sup.clone(),
                                workload: vec![
                                    CbCase { arr: a.0.clone(), cost: a.1.clone(), kind: k0, assumed: 5 },
                                    CbCase { arr: b.0.clone(), cost: b.1.clone(), kind: k1, assumed: 8 },
                                ],
                                subchain: sc,
                                limit: 120,
                            });
                        }
                    }
                }
            }
        }
    }
    v
}

pub fn run_c17(ctx: &mut Ctx) -> (String, Value, Vec<String>) {
    crate::util::silence_panics();
    // every base system also under tight divergence limits: a spurious Err of the base
    // that a hardening turns into Ok is a violation, too
    let mut ub = vec![];
    for c in uni_bases(ctx.quick()) {
        let mut lims = vec![LIMIT, 31, 14, 7];
        if let Ok(Outcome::Ok(r)) = catch(|| run_uni(&c)) {
            for l in [r, r.saturating_add(1), r.saturating_add(3), r.saturating_mul(2).saturating_add(1)] {
                // (a wrapped-around "bound" must not become a divergence limit)
                if l > 0 && l <= 4 * LIMIT && !lims.contains(&l) {
                    lims.push(l);
                }
            }
        }
        for lim in lims {
            let mut x = c.clone();
            x.limit = lim;
            ub.push(x);
        }
    }
    // a system that is not tiny: a burst of 12 000 unit jobs one tick apart (the next burst 10^7 ticks later) ahead of the analysed
    // task — the fixed-point iteration creeps one tick per round for 12 000 rounds, while most
    // hardenings let it leap
    for ana in if ctx.quick() { vec![Ana::FpP] } else { vec![Ana::FpP, Ana::FpNp, Ana::EdfP, Ana::Fifo] } {
        ub.push(UniCase {
            ana,
            tasks: vec![
                TaskSpec { arr: ArrSpec::Curve { dmin: (1..12_000u64).chain([10_000_000]).collect() }, cost: CostSpec::Scalar(1), deadline: 900_000, last_seg: 1, max_seg: 1 },
                TaskSpec { arr: ArrSpec::Sporadic { t: 1_000_000, j: 0 }, cost: CostSpec::Scalar(1), deadline: 1_000_000, last_seg: 1, max_seg: 1 },
            ],
            tua: 1,
            blocking: 0,
            limit: 1_000_000,
        });
    }
    let mut rb = vec![];
    for c in ros_bases(ctx.quick()) {
        rb.push(crate::props::c07::set_limit(&c, 30));
        rb.push(c);
    }
    let pairs = AtomicU64::new(0);
    let nontriv = AtomicU64::new(0);
    let bad = Mutex::new(Vec::<(String, String, Value)>::new());
    let sample = Mutex::new(Vec::<Value>::new());
    ub.par_iter().for_each(|c| {
        let base = match catch(|| run_uni(c)) {
            Ok(o) => o,
            Err(_) => return, // totality is C20's subject
        };
        for (label, h) in harden_uni(c) {
            let ho = match catch(|| run_uni(&h)) {
                Ok(o) => o,
                Err(_) => continue,
            };
            pairs.fetch_add(1, Ordering::Relaxed);
            if let (Outcome::Ok(a), Outcome::Ok(b)) = (&base, &ho) {
                if b > a {
                    nontriv.fetch_add(1, Ordering::Relaxed);
                }
            }
            if !not_more_optimistic(&base, &ho) {
                let mut b = bad.lock().unwrap();
                if b.len() < 200 {
                    b.push((format!("{}#more-optimistic-after-hardening", c.ana.name()), format!("{}: {:?} became {:?} after {label}; base {:?}", c.ana.name(), base, ho, c), json!({"base": c, "hard": h, "label": label})));
                }
            }
        }
        // a larger limit never changes an Ok
        if let Outcome::Ok(a) = base {
            for dl in [1u64, 7, 100] {
                let mut h = c.clone();
                h.limit += dl;
                pairs.fetch_add(1, Ordering::Relaxed);
                if catch(|| run_uni(&h)).ok() != Some(Outcome::Ok(a)) {
                    bad.lock().unwrap().push((format!("{}#ok-changes-with-limit", c.ana.name()), format!("{}: Ok({a}) changed when the limit was raised by {dl}: {:?}", c.ana.name(), c), json!({"base": c, "hard": h, "label": "limit"})));
                }
            }
        }
        if sample.lock().unwrap().len() < 2 && base.ok().map(|x| x > 3).unwrap_or(false) {
            let hs = harden_uni(c);
            sample.lock().unwrap().push(json!({"base": c, "base_result": format!("{:?}", base), "hardenings": hs.iter().map(|(l, h)| json!({"label": l, "result": format!("{:?}", catch(|| run_uni(h)))})).collect::<Vec<_>>()}));
        }
    });
    rb.par_iter().for_each(|c| {
        let base = match catch(|| run_ros(c)) {
            Ok(o) => o,
            Err(_) => return,
        };
        for (label, h) in harden_ros(c) {
            let ho = match catch(|| run_ros(&h)) {
                Ok(o) => o,
                Err(_) => continue,
            };
            pairs.fetch_add(1, Ordering::Relaxed);
            if let (Outcome::Ok(a), Outcome::Ok(b)) = (&base, &ho) {
                if b > a {
                    nontriv.fetch_add(1, Ordering::Relaxed);
                }
            }
            if !not_more_optimistic(&base, &ho) {
                let mut b = bad.lock().unwrap();
                if b.len() < 200 {
                    b.push((format!("{}#more-optimistic-after-hardening", crate::props::c07::name(c)), format!("{}: {:?} became {:?} after {label}; base {:?}", crate::props::c07::name(c), base, ho, c), json!({"ros_base": c, "ros_hard": h, "label": label})));
                }
            }
        }
        if let Outcome::Ok(a) = base {
            for dl in [1u64, 50] {
                let cur = match c {
                    RosCase::EventSource { limit, .. } | RosCase::Timer { limit, .. } | RosCase::Pp { limit, .. } | RosCase::Chain { limit, .. } | RosCase::ChainSummed { limit, .. } | RosCase::ChainGeneral { limit, .. } | RosCase::Sub { limit, .. } => *limit,
                };
                let h = crate::props::c07::set_limit(c, cur + dl);
                pairs.fetch_add(1, Ordering::Relaxed);
                if catch(|| run_ros(&h)).ok() != Some(Outcome::Ok(a)) {
                    bad.lock().unwrap().push((format!("{}#ok-changes-with-limit", crate::props::c07::name(c)), format!("Ok({a}) changed when the limit was raised: {:?}", c), json!({"ros_base": c, "ros_hard": h, "label": "limit"})));
                }
            }
        }
    });
    let mut bad = bad.into_inner().unwrap();
    bad.sort_by(|a, b| a.1.len().cmp(&b.1.len()));
    for (k, w, c) in bad {
        ctx.violation(&k, &w, "harden", c);
    }
    let cov = json!({
        "evaluations": pairs.load(Ordering::Relaxed),
        "distinct_nontrivial": nontriv.load(Ordering::Relaxed),
        "rule": format!("every base system ({} dedicated-processor cases over all nine analyses, {} ROS 2 cases over all six) x every single hardening (WCET+1, jitter+1, period-1, blocking+1, other task's non-preemptive segment+1, one more interfering task/callback, weaker supply: budget-1 / deadline+1 / dedicated->reservation, larger limit); non-trivial = the hardening strictly increased an Ok bound", ub.len(), rb.len()),
        "samples": sample.into_inner().unwrap(),
        "exhaustive": true,
    });
    ("exploration".into(), cov, vec![
        "lengthening the analysed task's own last non-preemptive segment is not a hardening (it can legitimately shorten its response time) and is not enumerated".into(),
        "period+1 with fixed budget is not pointwise weaker and is excluded".into(),
    ])
}

// ------------------------------------------------------------------------------------------

fn eq_pair(ctx_bad: &Mutex<Vec<(String, String, Value)>>, key: &str, a: &UniCase, b: &UniCase, n: &AtomicU64, nt: &AtomicU64) {
    let (ra, rb) = (catch(|| run_uni(a)), catch(|| run_uni(b)));
    n.fetch_add(1, Ordering::Relaxed);
    let (ra, rb) = match (ra, rb) {
        (Ok(x), Ok(y)) => (x, y),
        _ => return, // panics are C20's subject
    };
    if ra.ok().map(|v| v > 2).unwrap_or(false) {
        nt.fetch_add(1, Ordering::Relaxed);
    }
    let same = match (&ra, &rb) {
        (Outcome::Ok(x), Outcome::Ok(y)) => x == y,
        (x, y) => x.is_err() && y.is_err(),
    };
    if !same {
        let mut b_ = ctx_bad.lock().unwrap();
        if b_.len() < 200 {
            b_.push((key.to_string(), format!("{key}: {:?} vs {:?} on {:?} / {:?}", ra, rb, a, b), json!({"a": a, "b": b})));
        }
    }
}

pub fn run_c19(ctx: &mut Ctx) -> (String, Value, Vec<String>) {
    crate::util::silence_panics();
    let quick = ctx.quick();
    let tl: Vec<u64> = if quick { vec![2, 3, 5] } else { vec![1, 2, 3, 4, 5, 7] };
    let jl: Vec<u64> = if quick { vec![0, 2, 7] } else { vec![0, 1, 2, 4, 7, 15] };
    let cl: Vec<u64> = vec![1, 2, 3];
    let dls: Vec<u64> = if quick { vec![1, 4, 9] } else { vec![1, 3, 6, 9, 14] };
    let mut per: Vec<(ArrSpec, u64)> = vec![];
    for t in &tl {
        for j in &jl {
            for c in &cl {
                per.push((ArrSpec::Sporadic { t: *t, j: *j }, *c));
            }
        }
    }
    // exact curves that are not sporadic: periodic, auto-extrapolating super-additive prefixes
    for c in &cl {
        per.push((ArrSpec::Periodic { t: 4 }, *c));
        per.push((ArrSpec::Never, *c));
        per.push((ArrSpec::Prefix { horizon: 8, steps: vec![(1, 1), (3, 2), (7, 3)] }, *c));
        per.push((ArrSpec::ExtCurve { dmin: vec![0, 4] }, *c));
        per.push((ArrSpec::ExtCurve { dmin: vec![1, 3, 7] }, *c));
        if !quick {
            per.push((ArrSpec::ExtCurve { dmin: vec![2, 4, 9, 11] }, *c));
            per.push((ArrSpec::Propagated { inner: Box::new(ArrSpec::ExtCurve { dmin: vec![3, 6] }), j: 2 }, *c));
        }
    }
    let n = AtomicU64::new(0);
    let nt = AtomicU64::new(0);
    let bad = Mutex::new(Vec::<(String, String, Value)>::new());
    let pairs: Vec<((ArrSpec, u64), (ArrSpec, u64))> = per.iter().flat_map(|a| per.iter().map(move |b| (a.clone(), b.clone()))).collect();
    let body = |a: &(ArrSpec, u64), b: &(ArrSpec, u64), limits: &[u64], bbs: &[u64], dls: &[u64]| {
        for limit in limits.iter().copied() {
            for bb in bbs.iter().copied() {
                let mk = |ana: Ana, last: u64, bb: u64| UniCase { ana, tasks: vec![tsa(&a.0, a.1, 0, 1, 1), tsa(&b.0, b.1, 0, last, 1)], tua: 1, blocking: bb, limit };
                if bb == 0 {
                    eq_pair(&bad, "fp-lp(last=1,no-blocking)==fp-p#results-differ", &mk(Ana::FpLp, 1, 0), &mk(Ana::FpP, 1, 0), &n, &nt);
                }
                eq_pair(&bad, "fp-lp(last=wcet)==fp-np#results-differ", &mk(Ana::FpLp, b.1, bb), &mk(Ana::FpNp, 1, bb), &n, &nt);
                eq_pair(&bad, "fp-fl==fp-lp(last=1)#results-differ", &mk(Ana::FpFl, 1, bb), &mk(Ana::FpLp, 1, bb), &n, &nt);
            }
            for d0 in dls {
                for d1 in dls {
                    let mk = |ana: Ana, last: u64, np0: u64| UniCase { ana, tasks: vec![tsa(&a.0, a.1, *d0, 1, np0), tsa(&b.0, b.1, *d1, last, 1)], tua: 1, blocking: 0, limit };
                    eq_pair(&bad, "edf-lp(segments=1)==edf-p#results-differ", &mk(Ana::EdfLp, 1, 1), &mk(Ana::EdfP, 1, 1), &n, &nt);
                    eq_pair(&bad, "edf-fl(segments=1)==edf-p#results-differ", &mk(Ana::EdfFl, 1, 1), &mk(Ana::EdfP, 1, 1), &n, &nt);
                    eq_pair(&bad, "edf-lp(segments=wcet)==edf-np#results-differ", &mk(Ana::EdfLp, b.1, a.1), &mk(Ana::EdfNp, 1, a.1), &n, &nt);
                    for np0 in if a.1 <= 8 { (1..=a.1).collect::<Vec<u64>>() } else { vec![1, a.1 / 2, a.1] } {
                        eq_pair(&bad, "edf-fl==edf-lp(last=1)#results-differ", &mk(Ana::EdfFl, 1, np0), &mk(Ana::EdfLp, 1, np0), &n, &nt);
                    }
                }
            }
            // equal relative deadlines: max over tasks of NP-EDF == FIFO
            for dl in dls {
                let tasks = vec![tsa(&a.0, a.1, *dl, 1, a.1), tsa(&b.0, b.1, *dl, 1, b.1)];
                let fifo = catch(|| run_uni(&UniCase { ana: Ana::Fifo, tasks: tasks.clone(), tua: 0, blocking: 0, limit }));
                let e: Vec<_> = (0..2).map(|i| catch(|| run_uni(&UniCase { ana: Ana::EdfNp, tasks: tasks.clone(), tua: i, blocking: 0, limit }))).collect();
                n.fetch_add(1, Ordering::Relaxed);
                if let (Ok(f), Ok(e0), Ok(e1)) = (&fifo, &e[0], &e[1]) {
                    // the bound of a task that never releases a job is vacuous: the maximum
                    // ranges over the tasks that have jobs
                    let live = [a.0.eta(LIMIT) > 0, b.0.eta(LIMIT) > 0];
                    let edf_max = match (e0.ok(), e1.ok()) {
                        (Some(x), Some(y)) => Some((if live[0] { x } else { 0 }).max(if live[1] { y } else { 0 })),
                        _ => None,
                    };
                    if f.ok() != edf_max {
                        let mut b_ = bad.lock().unwrap();
                        if b_.len() < 200 {
                            b_.push(("max-edf-np(equal-deadlines)==fifo#results-differ".into(), format!("equal deadlines {dl}: NP-EDF bounds {:?}/{:?}, FIFO {:?}; tasks {:?}", e0, e1, f, tasks), json!({"tasks": tasks, "limit": limit})));
                        }
                    }
                }
                // event source == FIFO on a dedicated processor
                let es = catch(|| run_ros(&RosCase::EventSource { supply: SupplySpec::Dedicated, demand: tasks.iter().map(|t| (t.arr.clone(), t.cost.clone())).collect(), limit }));
                n.fetch_add(1, Ordering::Relaxed);
                if let (Ok(f), Ok(es)) = (&fifo, &es) {
                    if f.ok() != es.ok() {
                        let mut b_ = bad.lock().unwrap();
                        if b_.len() < 200 {
                            b_.push(("ros2::rta_event_source(dedicated)==fifo#results-differ".into(), format!("event source {:?}, FIFO {:?}; tasks {:?} limit {limit}", es, f, tasks), json!({"tasks": tasks, "limit": limit})));
                        }
                    }
                }
            }
        }
    };
    pairs.par_iter().for_each(|(a, b)| body(a, b, &[LIMIT, 9], &[0, 1, 3], &dls));
    // the same identities for a task on its own (an empty list of interfering tasks, not a list
    // with a never-arriving entry): an analysis may take a different code path there
    per.par_iter().for_each(|b| {
        for limit in [LIMIT, 9] {
            for bb in [0u64, 1, 3] {
                let mk = |ana: Ana, last: u64, bb: u64| UniCase { ana, tasks: vec![tsa(&b.0, b.1, 0, last, 1)], tua: 0, blocking: bb, limit };
                if bb == 0 {
                    eq_pair(&bad, "fp-lp(last=1,no-blocking)==fp-p#results-differ", &mk(Ana::FpLp, 1, 0), &mk(Ana::FpP, 1, 0), &n, &nt);
                }
                eq_pair(&bad, "fp-lp(last=wcet)==fp-np#results-differ", &mk(Ana::FpLp, b.1, bb), &mk(Ana::FpNp, 1, bb), &n, &nt);
                eq_pair(&bad, "fp-fl==fp-lp(last=1)#results-differ", &mk(Ana::FpFl, 1, bb), &mk(Ana::FpLp, 1, bb), &n, &nt);
            }
            for d1 in &dls {
                let mk = |ana: Ana, last: u64| UniCase { ana, tasks: vec![tsa(&b.0, b.1, *d1, last, 1)], tua: 0, blocking: 0, limit };
                eq_pair(&bad, "edf-lp(segments=1)==edf-p#results-differ", &mk(Ana::EdfLp, 1), &mk(Ana::EdfP, 1), &n, &nt);
                eq_pair(&bad, "edf-fl(segments=1)==edf-p#results-differ", &mk(Ana::EdfFl, 1), &mk(Ana::EdfP, 1), &n, &nt);
                eq_pair(&bad, "edf-lp(segments=wcet)==edf-np#results-differ", &mk(Ana::EdfLp, b.1), &mk(Ana::EdfNp, 1), &n, &nt);
                // "with equal relative deadlines the largest NP-EDF bound equals the FIFO bound",
                // for a task set of one
                let one = |ana: Ana| UniCase { ana, tasks: vec![tsa(&b.0, b.1, *d1, 1, b.1)], tua: 0, blocking: 0, limit };
                if b.0.eta(LIMIT) > 0 {
                    eq_pair(&bad, "max-edf-np(equal-deadlines)==fifo#results-differ", &one(Ana::EdfNp), &one(Ana::Fifo), &n, &nt);
                }
            }
        }
    });
    // systems that are not tiny: a busy window of more than 10^5 ticks (one very long job), and
    // the family hp = (C 2g, T 3g), tua = (C g-1, T 3g-2) whose busy window holds more than
    // 65 536 jobs of the analysed task, each a tick worse than the one before
    let sp = |t: u64, j: u64, c: u64| (ArrSpec::Sporadic { t, j }, c);
    let mut huge: Vec<((ArrSpec, u64), (ArrSpec, u64), Vec<u64>)> = vec![
        (sp(1_000_000, 0, 100_001), sp(1_000_000, 0, 1), vec![0, 7]),
        (sp(1_000_000, 0, 1), sp(1_000_000, 0, 100_005), vec![0, 7]),
        (sp(300_000, 0, 70_000), sp(250_000, 0, 40_000), vec![0, 90_000]),
        (sp(250_000, 400_000, 60_000), sp(900_000, 0, 30_000), vec![0, 3]),
    ];
    for g in if quick { vec![65_538u64] } else { vec![65_538u64, 66_001, 131_075] } {
        huge.push((sp(3 * g, 0, 2 * g), sp(3 * g - 2, 0, g - 1), vec![0, g]));
    }
    huge.par_iter().for_each(|(a, b, bbs)| body(a, b, &[1u64 << 44], bbs, &[5, 2_000_000, 1u64 << 40]));
    // every ROS 2 analysis: dedicated == periodic(q=p) == constrained(q=d=p)
    let rb: Vec<RosCase> = ros_bases(quick).into_iter().filter(|c| matches!(c, RosCase::EventSource { supply: SupplySpec::Dedicated, .. } | RosCase::Timer { supply: SupplySpec::Dedicated, .. } | RosCase::Pp { supply: SupplySpec::Dedicated, .. } | RosCase::Chain { supply: SupplySpec::Dedicated, .. } | RosCase::ChainSummed { supply: SupplySpec::Dedicated, .. } | RosCase::Sub { supply: SupplySpec::Dedicated, .. })).collect();
    rb.par_iter().for_each(|c| {
        let base = catch(|| run_ros(c));
        for p in [1u64, 2, 5] {
            for alt in [SupplySpec::Periodic { q: p, p }, SupplySpec::Constrained { q: p, dl: p, p }, SupplySpec::Opaque(Box::new(SupplySpec::Periodic { q: p, p }))] {
                let mut h = c.clone();
                match &mut h {
                    RosCase::EventSource { supply, .. } | RosCase::Timer { supply, .. } | RosCase::Pp { supply, .. } | RosCase::Chain { supply, .. } | RosCase::ChainSummed { supply, .. } | RosCase::ChainGeneral { supply, .. } | RosCase::Sub { supply, .. } => *supply = alt.clone(),
                }
                let r = catch(|| run_ros(&h));
                n.fetch_add(1, Ordering::Relaxed);
                if let (Ok(x), Ok(y)) = (&base, &r) {
                    if x.ok().map(|v| v > 2).unwrap_or(false) {
                        nt.fetch_add(1, Ordering::Relaxed);
                    }
                    let same = match (x, y) {
                        (Outcome::Ok(a), Outcome::Ok(b)) => a == b,
                        (a, b) => a.is_err() && b.is_err(),
                    };
                    if !same {
                        let mut b_ = bad.lock().unwrap();
                        if b_.len() < 200 {
                            b_.push((format!("{}(dedicated)==(full-budget-reservation)#results-differ", crate::props::c07::name(c)), format!("{:?} on a dedicated processor, {:?} on {:?}; case {:?}", x, y, alt, c), json!({"ros_a": c, "ros_b": h})));
                        }
                    }
                }
            }
        }
    });
    let mut bad = bad.into_inner().unwrap();
    bad.sort_by(|a, b| a.1.len().cmp(&b.1.len()));
    for (k, w, c) in bad {
        ctx.violation(&k, &w, "agree", c);
    }
    // a few of the equalities actually evaluated, written out
    let mut samples = vec![];
    for (a, b) in pairs.iter().step_by((pairs.len() / 3).max(1)).take(3) {
        let x = UniCase { ana: Ana::FpLp, tasks: vec![tsa(&a.0, a.1, 0, 1, 1), tsa(&b.0, b.1, 0, b.1, 1)], tua: 1, blocking: 1, limit: LIMIT };
        let mut y = x.clone();
        y.ana = Ana::FpNp;
        samples.push(json!({"pair": "FP limited-preemptive(last=WCET) vs non-preemptive", "left": x, "left_result": format!("{:?}", catch(|| run_uni(&x))), "right_result": format!("{:?}", catch(|| run_uni(&y)))}));
    }
    let cov = json!({
        "evaluations": n.load(Ordering::Relaxed),
        "distinct_nontrivial": nt.load(Ordering::Relaxed),
        "rule": format!("every pair of the statement on every two-task system over (plus periodic and auto-extrapolating curves) T in {:?}, J in {:?}, C in 1..3 (x deadlines {:?}, blocking 0/1/3, limits 60 and 9), the same pairs on a handful of systems with busy windows beyond 10^5 ticks and beyond 65 536 jobs of the analysed task, and every ROS 2 base case on dedicated vs full-budget reservations with P in {{1,2,5}}; non-trivial = both sides Ok with a bound > 2", tl, jl, dls),
        "samples": samples,
        "exhaustive": true,
    });
    ("exploration".into(), cov, vec!["arrival menu restricted to sub-additive curves (sporadic with jitter), as the equalities presuppose exact curves".into()])
}

pub fn replay(kind: &str, case: &Value) -> bool {
    let _ = kind;
    if let (Some(b), Some(h)) = (case.get("base"), case.get("hard")) {
        let (b, h): (UniCase, UniCase) = (serde_json::from_value(b.clone()).unwrap(), serde_json::from_value(h.clone()).unwrap());
        let (x, y) = (catch(|| run_uni(&b)), catch(|| run_uni(&h)));
        println!("replay: base {:?} hardened {:?}", x, y);
        return match (x, y) {
            (Ok(x), Ok(y)) => {
                if case["label"] == "limit" { x != y } else { !not_more_optimistic(&x, &y) }
            }
            _ => true,
        };
    }
    if let (Some(b), Some(h)) = (case.get("ros_base"), case.get("ros_hard")) {
        let (b, h): (RosCase, RosCase) = (serde_json::from_value(b.clone()).unwrap(), serde_json::from_value(h.clone()).unwrap());
        let (x, y) = (catch(|| run_ros(&b)), catch(|| run_ros(&h)));
        println!("replay: base {:?} hardened {:?}", x, y);
        return match (x, y) {
            (Ok(x), Ok(y)) => {
                if case["label"] == "limit" { x != y } else { !not_more_optimistic(&x, &y) }
            }
            _ => true,
        };
    }
    if let (Some(a), Some(b)) = (case.get("a"), case.get("b")) {
        let (a, b): (UniCase, UniCase) = (serde_json::from_value(a.clone()).unwrap(), serde_json::from_value(b.clone()).unwrap());
        let (x, y) = (catch(|| run_uni(&a)), catch(|| run_uni(&b)));
        println!("replay: {:?} vs {:?}", x, y);
        return match (x, y) {
            (Ok(x), Ok(y)) => x.ok() != y.ok(),
            _ => true,
        };
    }
    if let (Some(a), Some(b)) = (case.get("ros_a"), case.get("ros_b")) {
        let (a, b): (RosCase, RosCase) = (serde_json::from_value(a.clone()).unwrap(), serde_json::from_value(b.clone()).unwrap());
        let (x, y) = (catch(|| run_ros(&a)), catch(|| run_ros(&b)));
        println!("replay: {:?} vs {:?}", x, y);
        return match (x, y) {
            (Ok(x), Ok(y)) => x.ok() != y.ok(),
            _ => true,
        };
    }
    println!("replay: re-run ./run.sh C19 quick for this artefact kind");
    true
}
