//! C20: analyses and model queries are total and independent of the build profile.
//! The same exhaustive case streams are executed by two binaries built from the same sources
//! (release; release + debug-assertions + overflow-checks), each case under catch_unwind with a
//! watchdog; outcomes must be panic-free, terminate, and be identical across profiles.

use crate::analysis::*;
use crate::props::c11::{self, RbSpec};
use crate::props::{c06, c07, c08, c12, c14};
use crate::spec::*;
use crate::util::{catch, machinery_error, root, Ctx};
use response_time_analysis::arrival::ArrivalBound;
use response_time_analysis::wcet::{self, JobCostModel};
use serde::{Deserialize, Serialize};
use serde_json::{json, Value};
use std::io::Write;
use std::process::{Command, Stdio};
use std::sync::atomic::{AtomicU64, Ordering};
use std::sync::Arc;

#[derive(Clone, Debug, Serialize, Deserialize)]
pub enum Case {
    Uni(UniCase),
    Ros(RosCase),
    /// fixed_point::search (offset 0, debug brute-force cross-check) and search_with_offset
    Fp(c08::FpCase),
    /// number_arrivals(0..=h) and the first steps of steps_iter
    Arr(ArrSpec),
    /// cost_of_jobs / least_wcet / job_cost_iter
    Cost(CostSpec),
    /// wcet::Curve::new(prefix).extrapolate(n) then cost_of_jobs(0..)
    CostExtrapolate(Vec<u64>, usize),
    /// request-bound queries
    Rb(RbSpec),
    /// provided_service / service_time
    Supply(SupplySpec),
}

fn arr_has(s: &ArrSpec, pred: &dyn Fn(&ArrSpec) -> bool) -> bool {
    if pred(s) {
        return true;
    }
    match s {
        ArrSpec::Jitter { inner, .. }
        | ArrSpec::Propagated { inner, .. }
        | ArrSpec::CurveFromBound { inner, .. }
        | ArrSpec::CurveFromBoundUntil { inner, .. }
        | ArrSpec::PrefixFromBoundUntil { inner, .. }
        | ArrSpec::CurveFromPrefix { inner } => arr_has(inner, pred),
        ArrSpec::Sum(v) | ArrSpec::Slice(v) => v.iter().any(|x| arr_has(x, pred)),
        ArrSpec::SumOf(a, b) => arr_has(a, pred) || arr_has(b, pred),
        _ => false,
    }
}

fn is_prefix(s: &ArrSpec) -> bool {
    matches!(s, ArrSpec::Prefix { .. } | ArrSpec::PrefixFromBoundUntil { .. })
}

fn never_arrives(s: &ArrSpec) -> bool {
    catch(|| s.eta(200) == 0).unwrap_or(false)
}

/// call site + shape qualifiers; the symptom is appended by the driver
pub fn key_hint(c: &Case) -> String {
    match c {
        Case::Uni(u) => {
            let mut k = u.ana.name().to_string();
            if never_arrives(&u.tasks[u.tua].arr) {
                k.push_str("+never-arriving-task-under-analysis");
            }
            if u.tasks.iter().any(|t| arr_has(&t.arr, &is_prefix)) {
                k.push_str("+ArrivalCurvePrefix");
            }
            k
        }
        Case::Ros(r) => {
            let mut k = c07::name(r).to_string();
            let (a, _) = c07::analysed(r);
            if never_arrives(&a) {
                k.push_str("+never-arriving-analysed-callback");
            }
            let mut pref = false;
            let mut visit = |x: &ArrSpec| pref |= arr_has(x, &is_prefix);
            match r {
                RosCase::EventSource { demand, .. } => demand.iter().for_each(|x| visit(&x.0)),
                RosCase::Timer { own, hp, .. } => {
                    visit(&own.0);
                    hp.iter().for_each(|x| visit(&x.0))
                }
                RosCase::Pp { own, others, .. } => {
                    visit(&own.0);
                    others.iter().for_each(|x| visit(&x.0))
                }
                RosCase::ChainGeneral { chain, others, .. } => {
                    chain.iter().for_each(|x| visit(&x.0));
                    others.iter().for_each(|x| visit(&x.0))
                }
                RosCase::Chain { src, others, .. } | RosCase::ChainSummed { src, others, .. } => {
                    visit(src);
                    others.iter().for_each(|x| visit(&x.0))
                }
                RosCase::Sub { workload, .. } => workload.iter().for_each(|x| visit(&x.arr)),
            }
            if pref {
                k.push_str("+ArrivalCurvePrefix");
            }
            k
        }
        Case::Fp(f) => {
            if f.offset == 0 {
                "fixed_point::search".into()
            } else {
                "fixed_point::search_with_offset".into()
            }
        }
        Case::Arr(a) => {
            let mut k = format!("{}::queries", c11::type_name(a));
            if arr_has(a, &|x| matches!(x, ArrSpec::CurveFromBound { .. } | ArrSpec::CurveFromBoundUntil { .. })) {
                k.push_str("+Curve::from_arrival_bound");
            }
            if arr_has(a, &|x| matches!(x, ArrSpec::PrefixFromBoundUntil { inner, .. } if never_arrives(inner))) {
                k.push_str("+ArrivalCurvePrefix-of-never");
            }
            k
        }
        Case::Cost(c) => format!(
            "wcet::{}::queries",
            match c {
                CostSpec::Scalar(_) => "Scalar",
                CostSpec::Multiframe(_) => "Multiframe",
                CostSpec::Curve(_) | CostSpec::CurveFromTrace { .. } => "Curve",
                CostSpec::ExtCurve(_) => "ExtrapolatingCurve",
            }
        ),
        Case::CostExtrapolate(_, n) => format!("wcet::Curve::extrapolate({})", if *n == 0 { "0".to_string() } else { "n>0".to_string() }),
        Case::Rb(_) => "demand::RequestBound::queries".into(),
        Case::Supply(_) => "supply::queries".into(),
    }
}

pub fn run_case(c: &Case) -> String {
    match c {
        Case::Uni(u) => format!("{:?}", run_uni(u)),
        Case::Ros(r) => format!("{:?}", run_ros(r)),
        Case::Fp(f) => {
            if f.offset == 0 {
                format!("{:?}/{:?}", c08::lib_search(f), c08::lib(f))
            } else {
                format!("{:?}", c08::lib(f))
            }
        }
        Case::Arr(a) => {
            let ab = a.build();
            let eta: Vec<usize> = (0..=40u64).map(|x| ab.number_arrivals(d(x))).collect();
            let far = ab.number_arrivals(d(1000));
            let steps: Vec<u64> = ab.steps_iter().take(12).map(du).collect();
            format!("{:?}/{far}/{:?}", eta, steps)
        }
        Case::Cost(c) => {
            let m = c.build();
            let a: Vec<u64> = (0..=14).map(|n| su(m.cost_of_jobs(n))).collect();
            let b: Vec<u64> = (0..=14).map(|n| su(m.least_wcet(n))).collect();
            let i: Vec<u64> = m.job_cost_iter().take(10).map(su).collect();
            format!("{:?}/{:?}/{:?}", a, b, i)
        }
        Case::CostExtrapolate(pf, n) => {
            let mut c = wcet::Curve::new(pf.iter().map(|x| s(*x)).collect());
            c.extrapolate(*n);
            let a: Vec<u64> = (0..=14).map(|k| su(c.cost_of_jobs(k))).collect();
            format!("{:?}", a)
        }
        Case::Rb(r) => r.with(&mut |rb| {
            let a: Vec<u64> = (0..=24u64).map(|x| su(rb.service_needed(d(x)))).collect();
            let b: Vec<u64> = (0..=24u64).map(|x| su(rb.least_wcet_in_interval(d(x)))).collect();
            let n: Vec<u64> = (0..=24u64).map(|x| su(rb.service_needed_by_n_jobs(d(x), 2))).collect();
            // job limits meaning "no limit"
            let nl: Vec<u64> = [1usize << 40, 1 << 60, usize::MAX].iter().map(|k| su(rb.service_needed_by_n_jobs(d(17), *k))).collect();
            let a = (a, nl);
            let st: Vec<u64> = rb.steps_iter().take(10).map(du).collect();
            format!("{:?}/{:?}/{:?}/{:?}", a, b, n, st)
        }),
        Case::Supply(sp) => {
            use response_time_analysis::supply::SupplyBound;
            let su_ = sp.build();
            let a: Vec<u64> = (0..=40u64).map(|x| su(su_.provided_service(d(x)))).collect();
            let b: Vec<u64> = (0..=20u64).map(|x| du(su_.service_time(s(x)))).collect();
            // far queries whose exact answers still fit the value range (nanosecond time bases)
            let fa: Vec<u64> = [1_000_000_007u64, 1 << 40, (1 << 62) + 3].iter().map(|x| su(su_.provided_service(d(*x)))).collect();
            let fb: Vec<u64> = [1_000_000_007u64, 1 << 40, (1 << 56) + 3].iter().map(|x| du(su_.service_time(s(*x)))).collect();
            format!("{:?}/{:?}/{:?}/{:?}", a, b, fa, fb)
        }
    }
}

/// analysis cases over well-formed but unusual inputs: never-arriving tasks, prefix objects
fn corner_arrivals() -> Vec<ArrSpec> {
    vec![
        ArrSpec::Never,
        ArrSpec::Propagated { inner: Box::new(ArrSpec::Never), j: 3 },
        ArrSpec::Prefix { horizon: 8, steps: vec![(1, 1), (3, 2), (7, 3)] },
        ArrSpec::PrefixFromBoundUntil { inner: Box::new(ArrSpec::Sporadic { t: 4, j: 1 }), horizon: 9 },
        ArrSpec::Sporadic { t: 3, j: 0 },
        ArrSpec::Sporadic { t: 1, j: 0 },
        ArrSpec::Curve { dmin: vec![0, 5] },
        // delta-min vectors that end in a plateau: bursts of two / three simultaneous events at a
        // fixed distance (the repetition count of a plain curve then depends on the plateau)
        ArrSpec::Curve { dmin: vec![0, 6, 6] },
        ArrSpec::Curve { dmin: vec![0, 0, 9, 9, 9] },
    ]
}

pub fn stream(name: &str, quick: bool) -> Vec<Case> {
    match name {
        "uni" => {
            let mut v: Vec<Case> = c06::cases(quick).into_iter().map(Case::Uni).collect();
            // corner inputs: every analysis x every pair from the corner menu x every tua
            let corner = corner_arrivals();
            for ana in ALL_ANA {
                for a in &corner {
                    for b in &corner {
                        for tua in 0..2 {
                            for (d0, d1) in [(3u64, 7u64), (7, 3)] {
                                for limit in [40u64, 6] {
                                    v.push(Case::Uni(UniCase {
                                        ana,
                                        tasks: vec![
                                            TaskSpec { arr: a.clone(), cost: CostSpec::Scalar(2), deadline: d0, last_seg: 1, max_seg: 2 },
                                            TaskSpec { arr: b.clone(), cost: CostSpec::Scalar(2), deadline: d1, last_seg: 2, max_seg: 1 },
                                        ],
                                        tua,
                                        blocking: if ana.is_fp() && ana != Ana::FpP { 1 } else { 0 },
                                        limit,
                                    }));
                                }
                            }
                        }
                    }
                }
            }
            // "no threshold": divergence limits at the top of the value range, on systems whose
            // utilisation is below 1 (the analyses converge whatever the limit)
            let menu: Vec<(u64, u64, u64)> = vec![(3, 0, 1), (4, 5, 1), (7, 2, 2), (10, 12, 2), (6, 13, 1)];
            for ana in ALL_ANA {
                for a in &menu {
                    for b in &menu {
                        if (a.2 as f64) / (a.0 as f64) + (b.2 as f64) / (b.0 as f64) > 0.9 {
                            continue;
                        }
                        for tua in 0..2 {
                            for limit in [u64::MAX, u64::MAX - 1, u64::MAX - 7, 1u64 << 63] {
                                v.push(Case::Uni(UniCase {
                                    ana,
                                    tasks: vec![
                                        TaskSpec { arr: ArrSpec::Sporadic { t: a.0, j: a.1 }, cost: CostSpec::Scalar(a.2), deadline: 9, last_seg: 1, max_seg: a.2 },
                                        TaskSpec { arr: ArrSpec::Sporadic { t: b.0, j: b.1 }, cost: CostSpec::Scalar(b.2), deadline: 5, last_seg: b.2, max_seg: 1 },
                                    ],
                                    tua,
                                    blocking: if ana.is_fp() && ana != Ana::FpP { 1 } else { 0 },
                                    limit,
                                }));
                            }
                        }
                    }
                }
            }
            v
        }
        "ros" => {
            let mut v: Vec<Case> = c07::cases(quick).into_iter().map(Case::Ros).collect();
            let corner = corner_arrivals();
            let sups = [SupplySpec::Dedicated, SupplySpec::Periodic { q: 2, p: 3 }, SupplySpec::Constrained { q: 1, dl: 2, p: 4 }];
            for sup in &sups {
                for a in &corner {
                    for b in &corner {
                        let (aa, bb): (AC, AC) = ((a.clone(), CostSpec::Scalar(2)), (b.clone(), CostSpec::Scalar(1)));
                        v.push(Case::Ros(RosCase::EventSource { supply: sup.clone(), demand: vec![aa.clone(), bb.clone()], limit: 60 }));
                        v.push(Case::Ros(RosCase::Timer { supply: sup.clone(), own: aa.clone(), hp: vec![bb.clone()], blocking: 1, limit: 60 }));
                        v.push(Case::Ros(RosCase::Pp { supply: sup.clone(), own: aa.clone(), others: vec![bb.clone()], limit: 60 }));
                        v.push(Case::Ros(RosCase::Chain { supply: sup.clone(), src: a.clone(), costs: vec![CostSpec::Scalar(1), CostSpec::Scalar(2)], others: vec![bb.clone()], limit: 60 }));
                        for bw in [false, true] {
                            for (k0, k1) in [(Kind::Timer, Kind::Timer), (Kind::Polled(1), Kind::Polled(2)), (Kind::PolledUnknown, Kind::Timer), (Kind::EventSource, Kind::PolledUnknown)] {
                                for sc in [vec![0usize], vec![1], vec![1, 0]] {
                                    v.push(Case::Ros(RosCase::Sub {
                                        bw,
                                        supply: sup.clone(),
                                        workload: vec![
                                            CbCase { arr: a.clone(), cost: CostSpec::Scalar(2), kind: k0, assumed: 4 },
                                            CbCase { arr: b.clone(), cost: CostSpec::Scalar(1), kind: k1, assumed: 6 },
                                        ],
                                        subchain: sc,
                                        limit: 60,
                                    }));
                                }
                            }
                        }
                    }
                }
            }
            // fine-grained time bases (1 tick = 1 microsecond): busy windows of several 10^5 ticks
            for scale in [1u64, 1000] {
                let cb = |t: u64, c: u64, r: u64, kind: Kind| CbCase { arr: ArrSpec::Sporadic { t: t * scale, j: 0 }, cost: CostSpec::Scalar(c * scale), kind, assumed: r * scale };
                for bw in [false, true] {
                    v.push(Case::Ros(RosCase::Sub {
                        bw,
                        supply: SupplySpec::Dedicated,
                        workload: vec![cb(50, 30, 60, Kind::Timer), cb(70, 27, 65, Kind::PolledUnknown)],
                        subchain: vec![0, 1],
                        limit: 10_000 * scale,
                    }));
                    v.push(Case::Ros(RosCase::Sub {
                        bw,
                        supply: SupplySpec::Dedicated,
                        workload: vec![cb(50, 10, 20, Kind::Timer), cb(50, 10, 45, Kind::PolledUnknown), cb(70, 18, 60, Kind::PolledUnknown), cb(30, 9, 40, Kind::PolledUnknown)],
                        subchain: vec![0, 1],
                        limit: 10_000 * scale,
                    }));
                }
                let (aa, bb): (AC, AC) = ((ArrSpec::Sporadic { t: 50 * scale, j: 70 * scale }, CostSpec::Scalar(10 * scale)), (ArrSpec::Sporadic { t: 70 * scale, j: 0 }, CostSpec::Scalar(27 * scale)));
                v.push(Case::Ros(RosCase::EventSource { supply: SupplySpec::Dedicated, demand: vec![aa.clone(), bb.clone()], limit: 10_000 * scale }));
                v.push(Case::Ros(RosCase::Timer { supply: SupplySpec::Dedicated, own: aa.clone(), hp: vec![bb.clone()], blocking: 3 * scale, limit: 10_000 * scale }));
                v.push(Case::Ros(RosCase::Pp { supply: SupplySpec::Dedicated, own: aa.clone(), others: vec![bb.clone()], limit: 10_000 * scale }));
            }
            // divergence limits at the top of the value range on lightly loaded executors
            for sup in [SupplySpec::Dedicated, SupplySpec::Periodic { q: 2, p: 3 }] {
                for limit in [u64::MAX, u64::MAX - 1, u64::MAX - 7, 1u64 << 63] {
                    let (aa, bb): (AC, AC) = ((ArrSpec::Sporadic { t: 9, j: 11 }, CostSpec::Scalar(1)), (ArrSpec::Sporadic { t: 7, j: 3 }, CostSpec::Scalar(2)));
                    v.push(Case::Ros(RosCase::EventSource { supply: sup.clone(), demand: vec![aa.clone(), bb.clone()], limit }));
                    v.push(Case::Ros(RosCase::Timer { supply: sup.clone(), own: aa.clone(), hp: vec![bb.clone()], blocking: 1, limit }));
                    v.push(Case::Ros(RosCase::Pp { supply: sup.clone(), own: aa.clone(), others: vec![bb.clone()], limit }));
                    v.push(Case::Ros(RosCase::Chain { supply: sup.clone(), src: aa.0.clone(), costs: vec![CostSpec::Scalar(1), CostSpec::Scalar(1)], others: vec![bb.clone()], limit }));
                    for bw in [false, true] {
                        for (k0, k1) in [(Kind::Timer, Kind::PolledUnknown), (Kind::Polled(1), Kind::Polled(2)), (Kind::PolledUnknown, Kind::Timer)] {
                            for sc in [vec![0usize], vec![1, 0]] {
                                v.push(Case::Ros(RosCase::Sub {
                                    bw,
                                    supply: sup.clone(),
                                    workload: vec![
                                        CbCase { arr: aa.0.clone(), cost: CostSpec::Scalar(1), kind: k0, assumed: 9 },
                                        CbCase { arr: bb.0.clone(), cost: CostSpec::Scalar(2), kind: k1, assumed: 12 },
                                    ],
                                    subchain: sc,
                                    limit,
                                }));
                            }
                        }
                    }
                }
            }
            v
        }
        "fp" => {
            let (n, m, pmax) = if quick { (5, 5, 3) } else { (7, 7, 4) };
            let mut v = vec![];
            for sup in c08::supplies(pmax) {
                for t in c08::monotone_tables(n, m) {
                    for limit in [0u64, 1, 3, 8, 30, u64::MAX, u64::MAX - 2] {
                        v.push(Case::Fp(c08::FpCase { supply: sup.clone(), table: t.clone(), offset: 0, limit }));
                    }
                    // non-zero offsets inside the busy window (A > 0 needs sbf(A-1) < w(1))
                    {
                        use response_time_analysis::supply::SupplyBound;
                        let sb = sup.build();
                        for a in [1u64, 2, 5] {
                            if su(sb.provided_service(d(a - 1))) < t[0] {
                                for limit in [3u64, 30, u64::MAX, u64::MAX - a, u64::MAX - a + 1] {
                                    v.push(Case::Fp(c08::FpCase { supply: sup.clone(), table: t.clone(), offset: a, limit }));
                                }
                            }
                        }
                    }
                }
            }
            v
        }
        "arr" => {
            let mut v: Vec<Case> = c11::menu(quick).into_iter().map(Case::Arr).collect();
            for s in c12::sources(quick) {
                for n in [1usize, 2, 5] {
                    v.push(Case::Arr(ArrSpec::CurveFromBound { inner: Box::new(s.clone()), njobs: n }));
                }
                for h in [0u64, 1, 7] {
                    v.push(Case::Arr(ArrSpec::CurveFromBoundUntil { inner: Box::new(s.clone()), horizon: h }));
                    if h > 0 {
                        v.push(Case::Arr(ArrSpec::PrefixFromBoundUntil { inner: Box::new(s.clone()), horizon: h }));
                    }
                }
            }
            v.push(Case::Arr(ArrSpec::PrefixFromBoundUntil { inner: Box::new(ArrSpec::Never), horizon: 5 }));
            v.push(Case::Arr(ArrSpec::CurveFromPrefix { inner: Box::new(ArrSpec::PrefixFromBoundUntil { inner: Box::new(ArrSpec::Periodic { t: 3 }), horizon: 8 }) }));
            for t in c12::traces(if quick { 4 } else { 5 }, 5) {
                for pj in 1..=4 {
                    let rd = c12::ref_dmin(&t, pj);
                    if !rd.is_empty() && *rd.last().unwrap() > 0 {
                        v.push(Case::Arr(ArrSpec::CurveFromTrace { times: t.clone(), prefix_jobs: pj }));
                    }
                }
            }
            v
        }
        "cost" => {
            let mut v = vec![];
            for c in 0..=3u64 {
                v.push(Case::Cost(CostSpec::Scalar(c)));
            }
            for len in 1..=3usize {
                for idx in 0..4u64.pow(len as u32) {
                    let vec_: Vec<u64> = crate::props::uni::product_index(idx, 4, len).into_iter().map(|x| x as u64).collect();
                    v.push(Case::Cost(CostSpec::Multiframe(vec_.clone())));
                    for mn in 1..=4 {
                        v.push(Case::Cost(CostSpec::CurveFromTrace { costs: vec_.clone(), max_n: mn }));
                    }
                }
            }
            for pf in nondecreasing_prefixes(4, 5) {
                // well-formed cumulative costs: every job costs at least 1, sub-additive
                let ok = pf[0] >= 1 && (0..pf.len()).all(|i| (0..pf.len()).all(|j| i + j + 1 >= pf.len() || pf[i + j + 1] <= pf[i] + pf[j]));
                if !ok {
                    continue;
                }
                v.push(Case::Cost(CostSpec::Curve(pf.clone())));
                v.push(Case::Cost(CostSpec::ExtCurve(pf.clone())));
                for n in [0usize, 1, 2, 3, 6, 11] {
                    v.push(Case::CostExtrapolate(pf.clone(), n));
                }
            }
            let _ = c14::alphabet();
            v
        }
        "rb" => c11::rb_menu(quick).into_iter().chain(crate::props::c16::menu(true)).map(Case::Rb).collect(),
        "supply" => c08::supplies(if quick { 6 } else { 10 }).into_iter().map(Case::Supply).collect(),
        _ => machinery_error(&format!("unknown stream {name}")),
    }
}

pub const STREAMS: [&str; 7] = ["uni", "ros", "fp", "arr", "cost", "rb", "supply"];

fn fnv_step(h: u64, s: &str) -> u64 {
    let mut h = h;
    for b in s.bytes() {
        h ^= b as u64;
        h = h.wrapping_mul(0x100000001b3);
    }
    h ^= 0xff;
    h.wrapping_mul(0x100000001b3)
}

/// `rtamc c20-shard <stream> <quick|thorough> <shard> <nshards> <from> <cap_secs> <skipfile>`
/// prints one line per case: `O idx hash` (outcome hash), `P idx key :: msg` (panic),
/// `S idx` (skipped: its key is in the skip file), `H idx key` (hang; then exits with 3).
pub fn shard_main(args: &[String]) -> ! {
    crate::util::silence_panics();
    let name = &args[0];
    let quick = args[1] == "quick";
    let shard: usize = args[2].parse().unwrap();
    let nshards: usize = args[3].parse().unwrap();
    let from: usize = args[4].parse().unwrap();
    let cap: f64 = args[5].parse().unwrap();
    let skip: Vec<String> = args
        .get(6)
        .and_then(|p| std::fs::read_to_string(p).ok())
        .map(|t| t.lines().map(|l| l.to_string()).filter(|l| !l.is_empty()).collect())
        .unwrap_or_default();
    let cases = Arc::new(stream(name, quick));
    let cur = Arc::new(AtomicU64::new(u64::MAX));
    let tick = Arc::new(AtomicU64::new(0));
    let out = Arc::new(std::sync::Mutex::new(std::io::BufWriter::new(std::io::stdout())));
    {
        // watchdog: the same case still running after `cap` seconds = hang
        let (cur, tick, cases, out) = (cur.clone(), tick.clone(), cases.clone(), out.clone());
        std::thread::spawn(move || {
            let mut last = (u64::MAX, 0u64);
            let mut since = std::time::Instant::now();
            loop {
                std::thread::sleep(std::time::Duration::from_millis(50));
                let now = (cur.load(Ordering::SeqCst), tick.load(Ordering::SeqCst));
                if now != last {
                    last = now;
                    since = std::time::Instant::now();
                } else if now.0 != u64::MAX && since.elapsed().as_secs_f64() > cap {
                    let idx = now.0 as usize;
                    let mut l = out.lock().unwrap();
                    let _ = writeln!(l, "H {} {}", idx, key_hint(&cases[idx]));
                    let _ = l.flush();
                    std::process::exit(3);
                }
            }
        });
    }
    for idx in (0..cases.len()).filter(|i| i % nshards == shard && *i >= from) {
        if !skip.is_empty() && skip.contains(&key_hint(&cases[idx])) {
            let _ = writeln!(out.lock().unwrap(), "S {}", idx);
            continue;
        }
        cur.store(idx as u64, Ordering::SeqCst);
        tick.fetch_add(1, Ordering::SeqCst);
        {
            // begin marker, flushed: if the process is killed inside this case (allocation
            // failure, stack overflow: aborts that catch_unwind cannot intercept) the driver knows
            // which case it was
            let mut l = out.lock().unwrap();
            let _ = writeln!(l, "B {}", idx);
            let _ = l.flush();
        }
        let r = catch(|| run_case(&cases[idx]));
        cur.store(u64::MAX, Ordering::SeqCst);
        let mut l = out.lock().unwrap();
        match r {
            Ok(s) => {
                let _ = writeln!(l, "O {} {:016x}", idx, fnv_step(0xcbf29ce484222325, &s));
            }
            Err(msg) => {
                let _ = writeln!(l, "P {} {} :: {}", idx, key_hint(&cases[idx]), msg.replace('\n', " "));
            }
        }
    }
    let mut l = out.lock().unwrap();
    let _ = writeln!(l, "DONE");
    let _ = l.flush();
    std::process::exit(0);
}

#[derive(Default, Debug)]
struct ShardOut {
    outs: std::collections::HashMap<usize, u64>,
    panics: Vec<(usize, String, String)>,
    hangs: Vec<(usize, String)>,
    skipped: u64,
}

fn run_shard(
    bin: &std::path::Path,
    tag: &str,
    name: &str,
    quick: bool,
    shard: usize,
    nshards: usize,
    cap: f64,
    hang_keys: &std::sync::Mutex<std::collections::BTreeSet<String>>,
    permits: &(std::sync::Mutex<usize>, std::sync::Condvar),
) -> ShardOut {
    // every shard process materialises the whole case stream (up to 5.5 GB for the thorough `ros`
    // stream): bound the number of processes alive at any time
    struct Permit<'a>(&'a (std::sync::Mutex<usize>, std::sync::Condvar));
    impl Drop for Permit<'_> {
        fn drop(&mut self) {
            *self.0 .0.lock().unwrap() += 1;
            self.0 .1.notify_one();
        }
    }
    let _permit = {
        let mut g = permits.0.lock().unwrap();
        while *g == 0 {
            g = permits.1.wait(g).unwrap();
        }
        *g -= 1;
        Permit(permits)
    };
    let mut res = ShardOut::default();
    let mut from = 0usize;
    let skipfile = std::env::temp_dir().join(format!("rtamc-c20-skip-{}-{tag}-{name}-{shard}", std::process::id()));
    loop {
        let keys: Vec<String> = hang_keys.lock().unwrap().iter().cloned().collect();
        std::fs::write(&skipfile, keys.join("\n")).unwrap();
        let out = Command::new(bin)
            .arg("c20-shard")
            .arg(name)
            .arg(if quick { "quick" } else { "thorough" })
            .arg(shard.to_string())
            .arg(nshards.to_string())
            .arg(from.to_string())
            .arg(cap.to_string())
            .arg(&skipfile)
            .stdin(Stdio::null())
            .stderr(Stdio::null())
            .output()
            .unwrap_or_else(|e| machinery_error(&format!("cannot run {:?}: {e}", bin)));
        let txt = String::from_utf8_lossy(&out.stdout);
        let mut done = false;
        let mut hang_at = None;
        let mut begun: Option<usize> = None;
        for l in txt.lines() {
            if let Some(r) = l.strip_prefix("B ") {
                begun = r.trim().parse().ok();
            } else if let Some(r) = l.strip_prefix("O ") {
                let (i, h) = r.split_once(' ').unwrap();
                res.outs.insert(i.parse().unwrap(), u64::from_str_radix(h, 16).unwrap());
                begun = None;
            } else if let Some(r) = l.strip_prefix("P ") {
                let (i, rest) = r.split_once(' ').unwrap();
                let (k, m) = rest.split_once(" :: ").unwrap_or((rest, ""));
                res.panics.push((i.parse().unwrap(), k.to_string(), m.to_string()));
                begun = None;
            } else if let Some(r) = l.strip_prefix("H ") {
                let (i, k) = r.split_once(' ').unwrap();
                let idx: usize = i.parse().unwrap();
                res.hangs.push((idx, k.to_string()));
                // cases of the same shape are skipped from now on (in every shard and profile):
                // each hang costs the watchdog cap and a leaked CPU, and one witness per shape is
                // what the finding needs
                hang_keys.lock().unwrap().insert(k.to_string());
                hang_at = Some(idx);
            } else if l.starts_with("S ") {
                res.skipped += 1;
            } else if l == "DONE" {
                done = true;
            }
        }
        if done {
            break;
        }
        if hang_at.is_none() {
            if let Some(i) = begun {
                // the process died inside case i: an abort (not a panic) of the library
                let cases = stream(name, quick);
                res.panics.push((i, key_hint(&cases[i]), format!("the process was terminated inside this case ({:?}): abort / allocation failure / stack overflow", out.status)));
                from = i + 1;
                continue;
            }
        }
        match hang_at {
            Some(i) => from = i + 1,
            None => machinery_error(&format!("shard process {:?} {name} {shard}/{nshards} died without a result (status {:?})", bin, out.status)),
        }
    }
    let _ = std::fs::remove_file(&skipfile);
    res
}

fn one(bin: &std::path::Path, c: &Case) -> String {
    match Command::new(bin).arg("c20-one").arg(serde_json::to_string(c).unwrap()).stderr(Stdio::null()).output() {
        Ok(o) => String::from_utf8_lossy(&o.stdout).trim().to_string(),
        Err(e) => format!("cannot run: {e}"),
    }
}

/// `one` under a wall-clock cap: `None` = still running after `secs` seconds (the child is killed)
fn one_capped(bin: &std::path::Path, c: &Case, secs: f64) -> Option<String> {
    let mut child = Command::new(bin)
        .arg("c20-one")
        .arg(serde_json::to_string(c).unwrap())
        .stdin(Stdio::null())
        .stderr(Stdio::null())
        .stdout(Stdio::piped())
        .spawn()
        .ok()?;
    let t0 = std::time::Instant::now();
    loop {
        match child.try_wait() {
            Ok(Some(_)) => {
                let mut txt = String::new();
                if let Some(mut o) = child.stdout.take() {
                    use std::io::Read;
                    let _ = o.read_to_string(&mut txt);
                }
                return Some(txt.trim().to_string());
            }
            Ok(None) if t0.elapsed().as_secs_f64() > secs => {
                let _ = child.kill();
                let _ = child.wait();
                return None;
            }
            Ok(None) => std::thread::sleep(std::time::Duration::from_millis(20)),
            Err(_) => return None,
        }
    }
}

pub fn run(ctx: &mut Ctx) -> (String, Value, Vec<String>) {
    let quick = ctx.quick();
    let rel = std::env::current_exe().unwrap();
    let chk = root().join("harness/target/checked/rtamc");
    if !chk.exists() {
        machinery_error(&format!("{:?} missing: run ./run.sh setup (builds the checked profile)", chk));
    }
    let cap = if quick { 3.0 } else { 8.0 };
    let nshards = 8usize;
    let mut evals = 0u64;
    let mut per_stream = vec![];
    let mut samples = vec![];
    let mut nontrivial = 0u64;
    let mut skipped_total = 0u64;
    let mut slow_not_hung = 0u64;
    for name in STREAMS {
        let cases = stream(name, quick);
        let hang_keys = std::sync::Mutex::new(std::collections::BTreeSet::new());
        let permits = (std::sync::Mutex::new((40_000_000 / cases.len().max(1)).clamp(2, 2 * nshards)), std::sync::Condvar::new());
        let permits = &permits;
        // both profiles, all shards in parallel
        let results: Vec<(ShardOut, ShardOut)> = std::thread::scope(|sc| {
            let hs: Vec<_> = (0..nshards)
                .map(|sh| {
                    let (rel, chk, hk) = (rel.clone(), chk.clone(), &hang_keys);
                    let h1 = sc.spawn(move || run_shard(&rel, "rel", name, quick, sh, nshards, cap, hk, permits));
                    let hk = &hang_keys;
                    let h2 = sc.spawn(move || run_shard(&chk, "chk", name, quick, sh, nshards, cap, hk, permits));
                    (h1, h2)
                })
                .collect();
            hs.into_iter().map(|(a, b)| (a.join().unwrap(), b.join().unwrap())).collect()
        });
        let mut executed = 0u64;
        let mut compared = 0u64;
        for (r, c) in results.iter() {
            executed += (r.outs.len() + r.panics.len() + c.outs.len() + c.panics.len()) as u64;
            skipped_total += r.skipped + c.skipped;
            for (profile, o) in [("release", r), ("debug-assertions", c)] {
                for (idx, k, msg) in &o.panics {
                    let both = r.panics.iter().any(|p| p.0 == *idx) && c.panics.iter().any(|p| p.0 == *idx);
                    if both && profile == "debug-assertions" {
                        continue;
                    }
                    let sym = if both { "panics-in-both-profiles" } else if profile == "release" { "panics-in-release-build" } else { "panics-with-debug-assertions" };
                    ctx.violation(&format!("{k}#{sym}"), &format!("{k}: {sym} ({msg}) on {:?}", cases[*idx]), "c20-case", serde_json::to_value(&cases[*idx]).unwrap());
                }
                for (idx, k) in &o.hangs {
                    let sym = if profile == "release" { "does-not-terminate-in-release-build" } else { "does-not-terminate-with-debug-assertions" };
                    // the per-case watchdog ran while every core was busy with other shards: before
                    // a hang is reported the case is re-run alone, in its own process, under a cap
                    // ten times as long; a case that finishes there was merely slow (not a
                    // violation of C20) and only its outcome is compared across the profiles
                    let bin = if profile == "release" { &rel } else { &chk };
                    if let Some(o1) = one_capped(bin, &cases[*idx], 10.0 * cap).filter(|o| o.starts_with("OK ")) {
                        slow_not_hung += 1;
                        let other = if profile == "release" { &chk } else { &rel };
                        if let Some(o2) = one_capped(other, &cases[*idx], 10.0 * cap) {
                            if o1 != o2 {
                                ctx.violation(&format!("{k}#outcome-differs-between-profiles"), &format!("{k}: {profile} build gives {o1}, the other profile gives {o2} on {:?}", cases[*idx]), "c20-case", serde_json::to_value(&cases[*idx]).unwrap());
                            }
                        }
                        continue;
                    }
                    ctx.violation(&format!("{k}#{sym}"), &format!("{k}: {sym} (no result within {cap} s) on {:?}", cases[*idx]), "c20-case", serde_json::to_value(&cases[*idx]).unwrap());
                }
            }
            let mut diffs: Vec<usize> = r.outs.iter().filter(|(i, h)| c.outs.get(i).map(|h2| h2 != *h).unwrap_or(false)).map(|(i, _)| *i).collect();
            compared += r.outs.keys().filter(|i| c.outs.contains_key(i)).count() as u64;
            diffs.sort();
            for idx in diffs {
                let k = key_hint(&cases[idx]);
                let (o1, o2) = (one(&rel, &cases[idx]), one(&chk, &cases[idx]));
                ctx.violation(&format!("{k}#outcome-differs-between-profiles"), &format!("{k}: release build gives {o1}, build with debug assertions gives {o2} on {:?}", cases[idx]), "c20-case", serde_json::to_value(&cases[idx]).unwrap());
            }
        }
        evals += executed;
        nontrivial += compared;
        let hk: Vec<String> = hang_keys.lock().unwrap().iter().cloned().collect();
        per_stream.push(json!({"stream": name, "cases": cases.len(), "executions_both_profiles": executed, "compared_across_profiles": compared, "shapes_skipped_after_first_hang": hk}));
        if samples.len() < 7 {
            samples.push(json!({"stream": name, "case": cases[cases.len() / 2], "outcome_release": catch(|| run_case(&cases[cases.len() / 2])).unwrap_or("PANIC".into())}));
        }
        println!("  stream {name}: {} cases x 2 profiles, {} compared", cases.len(), compared);
    }
    let cov = json!({
        "evaluations": evals,
        "distinct_nontrivial": nontrivial,
        "rule": "every case of every stream (the C06/C07/C08 analysis boxes extended with never-arriving and prefix-object arrival models, all arrival/cost/request-bound/supply models and constructor outputs of C11/C12/C14/C16) is executed once per build profile under catch_unwind with a per-case watchdog; distinct_nontrivial = cases whose outcomes were compared across the two profiles (each is a distinct input)",
        "streams": per_stream,
        "profiles": ["release (no debug assertions, no overflow checks)", "checked = release + debug-assertions + overflow-checks"],
        "watchdog_seconds_per_case": cap,
        "watchdog_hits_that_finished_when_rerun_alone_under_ten_times_the_cap": slow_not_hung,
        "cases_skipped_because_their_shape_already_hung": skipped_total,
        "samples": samples,
        "exhaustive": skipped_total == 0,
    });
    ("exploration".into(), cov, vec![
        "well-formedness filter = the list in the statement; Never as an arrival model, budget = period, jitter >= period, prefix objects derived by the library's own constructors are all inside".into(),
        "the 'checked' profile is optimised but has cfg(debug_assertions) and overflow checks on, so the library's debug-only cross-checks run".into(),
        "after the first non-terminating case of a shape (call site + qualifiers) further cases of the same shape are skipped and counted".into(),
    ])
}

pub fn replay(case: &Value) -> bool {
    let c: Case = serde_json::from_value(case.clone()).unwrap_or_else(|e| machinery_error(&format!("bad case: {e}")));
    // replay runs in the release binary; ask the checked binary for its view through a one-case stream
    let here = crate::util::with_timeout(10.0, {
        let c = c.clone();
        move || run_case(&c)
    });
    println!("replay: release build: {:?}", here);
    let chk = root().join("harness/target/checked/rtamc");
    let out = Command::new(&chk).arg("c20-one").arg(serde_json::to_string(&c).unwrap()).output();
    let other = match out {
        Ok(o) => String::from_utf8_lossy(&o.stdout).trim().to_string(),
        Err(e) => format!("cannot run checked binary: {e}"),
    };
    println!("replay: build with debug assertions: {other}");
    match here {
        Ok(s) => other != format!("OK {s}"),
        Err(_) => true,
    }
}

/// `rtamc c20-one <json case>`: run one case with a watchdog, print its outcome
pub fn one_main(arg: &str) -> ! {
    crate::util::silence_panics();
    let c: Case = serde_json::from_str(arg).unwrap();
    match crate::util::with_timeout(10.0, move || run_case(&c)) {
        Ok(s) => println!("OK {s}"),
        Err(Some(e)) => println!("PANIC {e}"),
        Err(None) => println!("HANG"),
    }
    std::process::exit(0);
}
