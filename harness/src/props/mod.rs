pub mod c06;
pub mod c07;
pub mod c08;
pub mod c0910;
pub mod ros;
pub mod uni;
