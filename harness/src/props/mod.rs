pub mod uni;
