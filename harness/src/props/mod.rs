pub mod ros;
pub mod uni;
