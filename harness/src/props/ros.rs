//! C04 / C05: explicit-state model checking of the ROS 2 executor x reservation model against
//! bounds computed by the real ecrts19 / rr / bw analyses.

use crate::analysis::*;
use crate::engine::{self, Goal, Sys, Tick};
use crate::executor::{CbSpec, ExecSpec, Model};
use crate::props::uni::{product_index, Acc, Found};
use crate::spec::*;
use crate::tracecheck;
use crate::util::{machinery_error, Ctx};
use rayon::prelude::*;
use serde::{Deserialize, Serialize};
use serde_json::{json, Value};
use std::sync::Mutex;

pub const ROS_LIMIT: u64 = 150;
/// per-system state cap of the family being explored (systems that exceed it are counted as
/// truncated; a violation reached before the cap is still reported)
pub static STATE_CAP: std::sync::atomic::AtomicUsize = std::sync::atomic::AtomicUsize::new(2_000_000);

pub type AC1 = (ArrSpec, u64);

#[derive(Clone, Debug, Serialize, Deserialize, PartialEq, Eq, Hash)]
pub enum RosSys {
    /// independent callbacks, `nt` timers first; ecrts19 timer / polling-point analyses
    Indep {
        nt: usize,
        cbs: Vec<AC1>,
        supply: SupplySpec,
    },
    /// a chain of polled callbacks triggered by `src` plus one other callback.
    /// roles: 0..costs.len()-1 = chain callbacks, costs.len() = the other callback.
    /// `order` lists the roles in priority order (the other one is moved to the front if it is
    /// a timer).
    Chain {
        src: ArrSpec,
        costs: Vec<u64>,
        other: AC1,
        other_timer: bool,
        order: Vec<usize>,
        supply: SupplySpec,
    },
    /// event sources served FIFO on the reservation
    Fifo { srcs: Vec<AC1>, supply: SupplySpec },
    /// rr / bw singleton analyses with self-consistent bounds
    Sub {
        bw: bool,
        nt: usize,
        cbs: Vec<AC1>,
        known: Vec<bool>,
        supply: SupplySpec,
    },
}

fn ac(x: &AC1) -> AC {
    (x.0.clone(), CostSpec::Scalar(x.1))
}

impl RosSys {
    pub fn key(&self) -> &'static str {
        match self {
            RosSys::Indep { .. } => "ecrts19-timer/pp",
            RosSys::Chain { .. } => "ecrts19-chain",
            RosSys::Fifo { .. } => "ecrts19-event-source",
            RosSys::Sub { bw: false, .. } => "rr",
            RosSys::Sub { bw: true, .. } => "bw",
        }
    }

    pub fn exec_spec(&self) -> ExecSpec {
        match self {
            RosSys::Indep { nt, cbs, supply } | RosSys::Sub { nt, cbs, supply, .. } => ExecSpec {
                cbs: cbs
                    .iter()
                    .enumerate()
                    .map(|(i, (a, c))| CbSpec {
                        arr: Some(a.clone()),
                        next: None,
                        timer: i < *nt,
                        cost: *c,
                    })
                    .collect(),
                supply: supply.clone(),
                fifo: false,
            },
            RosSys::Fifo { srcs, supply } => ExecSpec {
                cbs: srcs
                    .iter()
                    .map(|(a, c)| CbSpec {
                        arr: Some(a.clone()),
                        next: None,
                        timer: false,
                        cost: *c,
                    })
                    .collect(),
                supply: supply.clone(),
                fifo: true,
            },
            RosSys::Chain {
                src,
                costs,
                other,
                other_timer,
                order,
                supply,
            } => {
                let m = costs.len();
                let mut ord: Vec<usize> = order.clone();
                if *other_timer {
                    ord.retain(|x| *x != m);
                    ord.insert(0, m);
                }
                let pos = |role: usize| ord.iter().position(|x| *x == role).unwrap();
                ExecSpec {
                    cbs: ord
                        .iter()
                        .map(|role| {
                            if *role == m {
                                CbSpec {
                                    arr: Some(other.0.clone()),
                                    next: None,
                                    timer: *other_timer,
                                    cost: other.1,
                                }
                            } else {
                                CbSpec {
                                    arr: if *role == 0 { Some(src.clone()) } else { None },
                                    next: if role + 1 < m { Some(pos(role + 1)) } else { None },
                                    timer: false,
                                    cost: costs[*role],
                                }
                            }
                        })
                        .collect(),
                    supply: supply.clone(),
                    fifo: false,
                }
            }
        }
    }

    /// Per callback of `exec_spec()`: the bound claimed by the real analysis (None = no claim).
    /// The outer None means: no (complete) claim for this system, skip it.
    pub fn bounds(&self, limit: u64) -> Option<Vec<Option<u64>>> {
        match self {
            RosSys::Indep { nt, cbs, supply } => {
                let n = cbs.len();
                let mut b = vec![None; n];
                for i in 0..n {
                    let case = if i < *nt {
                        let bmax = cbs[i + 1..].iter().map(|x| x.1).max().unwrap_or(0);
                        RosCase::Timer {
                            supply: supply.clone(),
                            own: ac(&cbs[i]),
                            hp: cbs[0..i].iter().map(ac).collect(),
                            blocking: bmax.saturating_sub(1),
                            limit,
                        }
                    } else {
                        RosCase::Pp {
                            supply: supply.clone(),
                            own: ac(&cbs[i]),
                            others: (0..n).filter(|k| *k != i).map(|k| ac(&cbs[k])).collect(),
                            limit,
                        }
                    };
                    b[i] = crate::util::catch(|| run_ros(&case)).ok().and_then(|o| o.ok());
                }
                if b.iter().any(|x| x.is_none()) {
                    return None;
                }
                Some(b)
            }
            RosSys::Chain {
                src,
                costs,
                other,
                supply,
                ..
            } => {
                let case = RosCase::Chain {
                    supply: supply.clone(),
                    src: src.clone(),
                    costs: costs.iter().map(|c| CostSpec::Scalar(*c)).collect(),
                    others: vec![ac(other)],
                    limit,
                };
                let r = crate::util::catch(|| run_ros(&case)).ok().and_then(|o| o.ok())?;
                // the other legitimate description of the same chain (summed WCETs); a claim is
                // a claim, the model is checked against the smaller one
                let case2 = RosCase::ChainSummed {
                    supply: supply.clone(),
                    src: src.clone(),
                    costs: costs.clone(),
                    others: vec![ac(other)],
                    limit,
                };
                let r = match crate::util::catch(|| run_ros(&case2)).ok().and_then(|o| o.ok()) {
                    Some(r2) => r.min(r2),
                    None => r,
                };
                let spec = self.exec_spec();
                // the last chain callback is the one without successor and without own source
                let last = spec
                    .cbs
                    .iter()
                    .position(|c| c.arr.is_none() && c.next.is_none())
                    .or_else(|| {
                        // chain of length 1
                        spec.cbs.iter().position(|c| c.arr.as_ref() == Some(src) && c.next.is_none())
                    })?;
                let mut b = vec![None; spec.cbs.len()];
                b[last] = Some(r);
                Some(b)
            }
            RosSys::Fifo { srcs, supply } => {
                let case = RosCase::EventSource {
                    supply: supply.clone(),
                    demand: srcs.iter().map(ac).collect(),
                    limit,
                };
                let r = crate::util::catch(|| run_ros(&case)).ok().and_then(|o| o.ok())?;
                Some(vec![Some(r); srcs.len()])
            }
            RosSys::Sub {
                bw,
                nt,
                cbs,
                known,
                supply,
            } => {
                let n = cbs.len();
                let kind = |k: usize| {
                    if k < *nt {
                        Kind::Timer
                    } else if known[k] {
                        // priorities are only ever compared: spread them over the whole value
                        // range (i32::MIN ... i32::MAX, e.g. sentinel values), order preserved
                        Kind::Polled(if n < 2 { 0 } else { (i32::MIN as i64 + k as i64 * ((u32::MAX as i64) / (n as i64 - 1))) as i32 })
                    } else {
                        Kind::PolledUnknown
                    }
                };
                // iterate all singleton analyses upwards from the WCETs
                let mut assumed: Vec<u64> = cbs.iter().map(|x| x.1).collect();
                for _round in 0..300 {
                    let mut newb = assumed.clone();
                    for i in 0..n {
                        let case = RosCase::Sub {
                            bw: *bw,
                            supply: supply.clone(),
                            workload: (0..n)
                                .map(|k| CbCase {
                                    arr: cbs[k].0.clone(),
                                    cost: CostSpec::Scalar(cbs[k].1),
                                    kind: kind(k),
                                    assumed: assumed[k],
                                })
                                .collect(),
                            subchain: vec![i],
                            limit,
                        };
                        let v = crate::util::catch(|| run_ros(&case)).ok().and_then(|o| o.ok())?;
                        newb[i] = v.max(assumed[i]);
                    }
                    if newb == assumed {
                        return Some(assumed.into_iter().map(Some).collect());
                    }
                    assumed = newb;
                    if assumed.iter().any(|x| *x > limit) {
                        return None;
                    }
                }
                None
            }
        }
    }
}

#[derive(Serialize, Deserialize, Clone, Debug)]
pub struct ExecReplay {
    pub sys: RosSys,
    pub callback: usize,
    pub bounds: Vec<Option<u64>>,
    pub init_res: (u8, u8),
    pub ticks: Vec<Tick>,
    pub eta_compliant: bool,
    pub observed: u64,
}

pub fn check_system(ctx: &Ctx, sys: &RosSys, item: u64, acc: &mut Acc, found: &mut Vec<Found>) {
    acc.tasksets += 1;
    let b = match sys.bounds(ROS_LIMIT) {
        Some(b) => b,
        None => {
            acc.skipped_err += 1;
            return;
        }
    };
    let spec = sys.exec_spec();
    let n = spec.cbs.len();
    let m = Model::new(&spec, &b, 5);
    let st = engine::explore(&m, STATE_CAP.load(std::sync::atomic::Ordering::Relaxed));
    acc.systems += 1;
    acc.states += st.states as u64;
    acc.transitions += st.transitions as u64;
    acc.max_states = acc.max_states.max(st.states as u64);
    if st.truncated {
        acc.truncated += 1;
    }
    if st.caps.hep > 0 {
        acc.hep_cap_systems += 1;
    }
    if st.caps.burst {
        acc.burst_cap_systems += 1;
    }
    if st.complete() && st.violation.is_none() {
        acc.complete += 1;
    }
    if let Some((task0, age0)) = st.violation {
        if crate::props::uni::TRACED.fetch_add(1, std::sync::atomic::Ordering::Relaxed) >= crate::props::uni::MAX_TRACED {
            found.push(Found {
                key: format!("{}#bound-exceeded", sys.key()),
                what: format!(
                    "{}: bound {:?} for callback {} but the model reaches a state in which an instance has been pending for {} ticks (not individually traced); system {:?}",
                    sys.key(), b[task0], task0, age0, sys
                ),
                replay: json!({"untraced": true, "sys": sys}),
            });
            return;
        }
        let (init, ticks) = engine::find_trace(&m, Goal::Violation, 8_000_000)
            .unwrap_or_else(|| machinery_error("BFS could not reproduce a DFS violation"));
        let init_res = (init.phase, init.left);
        let rep = tracecheck::check_exec(&spec, init_res, &ticks);
        if !rep.problems.is_empty() {
            machinery_error(&format!(
                "trace checker rejects a counterexample of the executor model: {:?} on {:?} ticks {:?}",
                rep.problems, sys, ticks
            ));
        }
        let task = (0..n)
            .find(|k| b[*k].map(|bb| rep.exceeds(*k, bb)).unwrap_or(false))
            .unwrap_or(task0);
        let bound = b[task].unwrap();
        if !rep.exceeds(task, bound) {
            machinery_error(&format!(
                "trace checker does not reproduce the violating response time on {:?}: {:?} ticks {:?}",
                sys, rep, ticks
            ));
        }
        acc.traces_validated += 1;
        let r = ExecReplay {
            sys: sys.clone(),
            callback: task,
            bounds: b.clone(),
            init_res,
            ticks,
            eta_compliant: rep.eta_ok,
            observed: rep.worst(task),
        };
        found.push(Found {
            key: format!("{}#bound-exceeded", sys.key()),
            what: format!(
                "{}: bound {} for callback {} but a legal execution keeps an instance pending for {}; system {:?}",
                sys.key(), bound, task, rep.worst(task), sys
            ),
            replay: serde_json::to_value(&r).unwrap(),
        });
        return;
    }
    let mut nontrivial = false;
    for k in 0..n {
        if let Some(bb) = b[k] {
            acc.bounds_checked += 1;
            if st.max_resp[k] as u64 > spec.cbs[k].cost {
                nontrivial = true;
            }
            if st.complete() {
                if st.max_resp[k] as u64 == bb {
                    acc.tight += 1;
                } else {
                    acc.loose += 1;
                }
            }
        }
    }
    if nontrivial {
        acc.nontrivial += 1;
    }
    let sample_rate = if ctx.quick() { 60 } else { 600 };
    if ctx.pick(item, sample_rate) {
        if let Some(k) = (0..n)
            .filter(|k| b[*k].is_some())
            .max_by_key(|k| st.max_resp[*k])
            .filter(|k| st.max_resp[*k] > 0)
        {
            let goal = Goal::Resp {
                task: k,
                resp: st.max_resp[k],
            };
            if let Some((init, ticks)) = engine::find_trace(&m, goal, 8_000_000) {
                let rep = tracecheck::check_exec(&spec, (init.phase, init.left), &ticks);
                if !rep.problems.is_empty() {
                    machinery_error(&format!(
                        "trace checker rejects a witness trace: {:?} on {:?} ticks {:?}",
                        rep.problems, sys, ticks
                    ));
                }
                if rep.max_resp[k] != st.max_resp[k] as u64 {
                    machinery_error("trace checker computes a different response time");
                }
                acc.traces_validated += 1;
                if !rep.eta_ok {
                    acc.witness_not_eta += 1;
                }
                if acc.samples.len() < 2 {
                    acc.samples.push(json!({
                        "system": sys, "callback": k, "bound": b[k], "states": st.states,
                        "transitions": st.transitions, "model_wcrt": st.max_resp[k],
                        "witness_ticks": ticks.len(),
                        "witness_first_ticks": ticks.iter().take(6).collect::<Vec<_>>(),
                    }));
                }
            }
        }
    }
    let sr_rate = if ctx.quick() { 600 } else { 6000 };
    if st.complete() && st.states < 40_000 && ctx.pick(item.wrapping_add(17), sr_rate) {
        let (u, v) = engine::stateright_check(std::sync::Arc::new(Model::new(&spec, &b, 5)));
        if v || u != st.states {
            machinery_error(&format!(
                "stateright disagrees: {} unique states / violation={} vs {} / none on {:?}",
                u, v, st.states, sys
            ));
        }
        acc.sr_checked += 1;
    }
}

pub fn supplies(quick: bool) -> Vec<SupplySpec> {
    let mut v = vec![
        SupplySpec::Dedicated,
        SupplySpec::Periodic { q: 1, p: 2 },
        SupplySpec::Periodic { q: 2, p: 3 },
        SupplySpec::Periodic { q: 1, p: 3 },
        SupplySpec::Constrained { q: 1, dl: 2, p: 3 },
        // budget = deadline < period
        SupplySpec::Constrained { q: 1, dl: 1, p: 2 },
    ];
    if !quick {
        v.push(SupplySpec::Constrained { q: 2, dl: 3, p: 4 });
        v.push(SupplySpec::Constrained { q: 2, dl: 2, p: 3 });
        v.push(SupplySpec::Periodic { q: 3, p: 5 });
        v.push(SupplySpec::Constrained { q: 2, dl: 4, p: 5 });
    }
    v
}

fn grid(tmin: u64, tmax: u64, jmax: u64, cmax: u64, curves: bool) -> Vec<AC1> {
    let mut v = vec![];
    for t in tmin..=tmax {
        for j in 0..=jmax {
            for c in 1..=cmax {
                v.push((ArrSpec::Sporadic { t, j }, c));
            }
        }
    }
    if curves {
        for c in 1..=cmax {
            v.push((ArrSpec::Curve { dmin: vec![0, 5] }, c));
            v.push((
                ArrSpec::ExtCurve {
                    dmin: vec![1, 4, 8],
                },
                c,
            ));
            v.push((
                ArrSpec::Propagated {
                    inner: Box::new(ArrSpec::Sporadic { t: 6, j: 0 }),
                    j: 2,
                },
                c,
            ));
        }
    }
    v
}

/// enumerate all systems of a family as (index -> RosSys) through a closure over a product
pub struct Family {
    pub name: String,
    pub total: u64,
    /// per-system state cap
    pub cap: usize,
    pub make: Box<dyn Fn(u64) -> Option<RosSys> + Sync + Send>,
}

fn indep_family(name: &str, sub: Option<bool>, shapes: Vec<(usize, usize)>, per: Vec<AC1>, sups: Vec<SupplySpec>) -> Vec<Family> {
    let mut fams = vec![];
    for (nt, np) in shapes {
        let n = nt + np;
        let per = per.clone();
        let sups = sups.clone();
        let base = per.len() as u64;
        let nk: u64 = if sub.is_some() { 1 << np } else { 1 };
        let total = base.pow(n as u32) * sups.len() as u64 * nk;
        let nm = format!("{name} {nt} timers + {np} polled");
        fams.push(Family {
            name: nm,
            total,
            cap: 2_000_000,
            make: Box::new(move |idx| {
                let si = (idx % sups.len() as u64) as usize;
                let rest = idx / sups.len() as u64;
                let ki = rest % nk;
                let rest = rest / nk;
                let sel = product_index(rest, per.len(), n);
                let cbs: Vec<AC1> = sel.iter().map(|k| per[*k].clone()).collect();
                Some(match sub {
                    None => RosSys::Indep {
                        nt,
                        cbs,
                        supply: sups[si].clone(),
                    },
                    Some(bw) => RosSys::Sub {
                        bw,
                        nt,
                        cbs,
                        known: (0..n).map(|k| k >= nt && (ki >> (k - nt)) & 1 == 1).collect(),
                        supply: sups[si].clone(),
                    },
                })
            }),
        });
    }
    fams
}

fn perms(n: usize) -> Vec<Vec<usize>> {
    if n == 0 {
        return vec![vec![]];
    }
    let mut out = vec![];
    for p in perms(n - 1) {
        for pos in 0..=p.len() {
            let mut q = p.clone();
            q.insert(pos, n - 1);
            out.push(q);
        }
    }
    out
}

fn chain_family(name: &str, m: usize, srcs: Vec<ArrSpec>, cmax: u64, others: Vec<AC1>, sups: Vec<SupplySpec>) -> Family {
    let orders = perms(m + 1);
    let ncost = cmax.pow(m as u32);
    let total = srcs.len() as u64 * ncost * others.len() as u64 * 2 * orders.len() as u64 * sups.len() as u64;
    Family {
        name: name.to_string(),
        total,
        cap: 2_000_000,
        make: Box::new(move |mut idx| {
            let si = (idx % sups.len() as u64) as usize;
            idx /= sups.len() as u64;
            let oi = (idx % orders.len() as u64) as usize;
            idx /= orders.len() as u64;
            let timer = idx % 2 == 1;
            idx /= 2;
            let ot = (idx % others.len() as u64) as usize;
            idx /= others.len() as u64;
            let ci = idx % ncost;
            idx /= ncost;
            let src = srcs[idx as usize].clone();
            let costs: Vec<u64> = product_index(ci, cmax as usize, m).iter().map(|c| *c as u64 + 1).collect();
            // a timer "other" makes the relative position of `other` irrelevant: keep one
            // representative order per relative order of the chain callbacks
            if timer {
                let pos_m = orders[oi].iter().position(|x| *x == m).unwrap();
                if pos_m != 0 {
                    return None;
                }
            }
            Some(RosSys::Chain {
                src,
                costs,
                other: others[ot].clone(),
                other_timer: timer,
                order: orders[oi].clone(),
                supply: sups[si].clone(),
            })
        }),
    }
}

fn fifo_family(name: &str, n: usize, per: Vec<AC1>, sups: Vec<SupplySpec>) -> Family {
    let total = (per.len() as u64).pow(n as u32) * sups.len() as u64;
    Family {
        name: name.to_string(),
        total,
        cap: 2_000_000,
        make: Box::new(move |idx| {
            let si = (idx % sups.len() as u64) as usize;
            let sel = product_index(idx / sups.len() as u64, per.len(), n);
            // unordered: keep non-decreasing selections only
            if sel.windows(2).any(|w| w[0] > w[1]) {
                return None;
            }
            Some(RosSys::Fifo {
                srcs: sel.iter().map(|k| per[*k].clone()).collect(),
                supply: sups[si].clone(),
            })
        }),
    }
}

pub fn families(id: &str, quick: bool) -> Vec<Family> {
    let sups = supplies(quick);
    let mut f = vec![];
    match id {
        "C04" => {
            if quick {
                f.extend(indep_family("ecrts19 T2..5 J<=2 C<=2", None, vec![(1, 1), (0, 2), (2, 0)], grid(2, 5, 2, 2, true), sups.clone()));
                f.extend(indep_family("ecrts19 T{3,4,6} J<=1 C<=2", None, vec![(1, 2), (2, 1), (0, 3)],
                    [3u64, 4, 6].iter().flat_map(|t| (0..=1u64).flat_map(move |j| (1..=2u64).map(move |c| (ArrSpec::Sporadic { t: *t, j }, c)))).collect(), sups.clone()));
                f.push(chain_family("chain of 2 + other", 2,
                    (3..=6u64).flat_map(|t| (0..=1u64).map(move |j| ArrSpec::Sporadic { t, j })).collect(), 2, grid(3, 5, 1, 2, false), sups.clone()));
                f.push(fifo_family("event sources x2", 2, grid(2, 5, 2, 2, true), sups.clone()));
                // four callbacks: three interfering ones in every kind / priority position
                f.extend(indep_family("ecrts19 4 callbacks {(5,0),(8,6)} C=1", None, vec![(2, 2), (1, 3), (0, 4), (3, 1)],
                    vec![(ArrSpec::Sporadic { t: 5, j: 0 }, 1u64), (ArrSpec::Sporadic { t: 8, j: 6 }, 1)],
                    vec![SupplySpec::Dedicated]));
            } else {
                f.extend(indep_family("ecrts19 4 callbacks {(5,0),(8,6),(6,1)} C=1", None, vec![(2, 2), (1, 3), (0, 4), (3, 1)],
                    vec![(ArrSpec::Sporadic { t: 5, j: 0 }, 1u64), (ArrSpec::Sporadic { t: 8, j: 6 }, 1), (ArrSpec::Sporadic { t: 6, j: 1 }, 1)],
                    vec![SupplySpec::Dedicated, SupplySpec::Periodic { q: 2, p: 3 }]));
                f.extend(indep_family("ecrts19 T2..8 J<=3 C<=2", None, vec![(1, 1), (0, 2), (2, 0)], grid(2, 8, 3, 2, true), sups.clone()));
                f.extend(indep_family("ecrts19 T2..6 J<=2 C<=2", None, vec![(1, 2), (2, 1), (0, 3), (3, 0)], grid(2, 6, 2, 2, false), sups.clone()));
                f.push(chain_family("chain of 2 + other", 2,
                    (2..=8u64).flat_map(|t| (0..=3u64).map(move |j| ArrSpec::Sporadic { t, j })).collect(), 2, grid(2, 6, 2, 2, true), sups.clone()));
                f.push(chain_family("chain of 3 + other", 3,
                    (3..=8u64).flat_map(|t| (0..=1u64).map(move |j| ArrSpec::Sporadic { t, j })).collect(), 2, grid(3, 6, 1, 2, false), sups.clone()));
                f.push(fifo_family("event sources x2", 2, grid(2, 8, 3, 3, true), sups.clone()));
                f.push(fifo_family("event sources x3", 3, grid(2, 6, 2, 2, false), sups.clone()));
            }
        }
        "C05" => {
            // (the quick tier of C05 keeps to five supplies; C04 and the thorough tier use all)
            let sups: Vec<SupplySpec> = if quick { sups.into_iter().filter(|s| *s != SupplySpec::Constrained { q: 1, dl: 1, p: 2 }).collect() } else { sups };
            for bw in [false, true] {
                let nm = if bw { "bw" } else { "rr" };
                if quick {
                    f.extend(indep_family(&format!("{nm} T3..8 J<=2 C<=2"), Some(bw), vec![(1, 1), (0, 2), (2, 0)], grid(3, 8, 2, 2, true), sups.clone()));
                    f.extend(indep_family(&format!("{nm} T{{5,9}} J<=1 C<=2"), Some(bw), vec![(1, 2), (0, 3)],
                        [5u64, 9].iter().flat_map(|t| (0..=1u64).flat_map(move |j| (1..=2u64).map(move |c| (ArrSpec::Sporadic { t: *t, j }, c)))).collect(), sups.clone()));
                    // longer periods with bursts and larger WCETs: the busy-window analysis' offset
                    // search space (steps of polled callbacks) decides the bound here
                    let mut lp = indep_family(&format!("{nm} long periods, bursts, WCET<=3 (state cap 60k)"), Some(bw), vec![(0, 3)],
                        vec![(6u64, 0u64, 3u64), (6, 0, 1), (17, 0, 1), (12, 16, 2), (12, 0, 2), (9, 9, 1)].into_iter().map(|(t, j, c)| (ArrSpec::Sporadic { t, j }, c)).collect(),
                        vec![SupplySpec::Dedicated]);
                    for x in lp.iter_mut() {
                        x.cap = 60_000;
                    }
                    f.extend(lp);
                    // a costly low-priority callback that releases a burst of two, a frequent costly
                    // one and a rare cheap one, in every priority order
                    let mut b2 = indep_family(&format!("{nm} burst-of-two, WCET<=3 (state cap 15k)"), Some(bw), vec![(0, 3)],
                        vec![(6u64, 0u64, 2u64), (15, 0, 1), (20, 20, 3), (16, 16, 2)].into_iter().map(|(t, j, c)| (ArrSpec::Sporadic { t, j }, c)).collect(),
                        vec![SupplySpec::Dedicated]);
                    for x in b2.iter_mut() {
                        x.cap = 15_000;
                    }
                    f.extend(b2);
                    // four callbacks (anything that ranks, sorts or looks up the *other* callbacks is
                    // trivially right with two of them)
                    f.extend(indep_family(&format!("{nm} 4 callbacks {{(5,0),(8,6)}} C=1"), Some(bw), vec![(0, 4), (1, 3)],
                        vec![(ArrSpec::Sporadic { t: 5, j: 0 }, 1u64), (ArrSpec::Sporadic { t: 8, j: 6 }, 1)],
                        vec![SupplySpec::Dedicated]));
                    // short periods, unit costs: several polling points inside one response time,
                    // where the relative priority of polled callbacks decides the bound
                    f.extend(indep_family(&format!("{nm} T{{3,4,7}} J{{0,2}} C=1"), Some(bw), vec![(0, 3), (1, 2)],
                        [3u64, 4, 7].iter().flat_map(|t| [0u64, 2].into_iter().map(move |j| (ArrSpec::Sporadic { t: *t, j }, 1u64))).collect(), sups.clone()));
                } else {
                    let mut lp = indep_family(&format!("{nm} long periods, bursts, WCET<=3 (state cap 150k)"), Some(bw), vec![(0, 3), (1, 2)],
                        vec![(6u64, 0u64, 3u64), (6, 0, 1), (17, 0, 1), (12, 16, 2), (12, 0, 2), (9, 9, 1), (20, 3, 3)].into_iter().map(|(t, j, c)| (ArrSpec::Sporadic { t, j }, c)).collect(),
                        vec![SupplySpec::Dedicated]);
                    for x in lp.iter_mut() {
                        x.cap = 150_000;
                    }
                    f.extend(lp);
                    let mut b2 = indep_family(&format!("{nm} burst-of-two, WCET<=3 (state cap 60k)"), Some(bw), vec![(0, 3)],
                        vec![(6u64, 0u64, 2u64), (5, 0, 2), (15, 0, 1), (12, 0, 1), (20, 20, 3), (16, 16, 2)].into_iter().map(|(t, j, c)| (ArrSpec::Sporadic { t, j }, c)).collect(),
                        vec![SupplySpec::Dedicated]);
                    for x in b2.iter_mut() {
                        x.cap = 60_000;
                    }
                    f.extend(b2);
                    let mut c4 = indep_family(&format!("{nm} 4 callbacks {{(5,0)C1,(8,6)C1,(11,0)C2}} (state cap 300k)"), Some(bw), vec![(0, 4), (1, 3), (2, 2)],
                        vec![(ArrSpec::Sporadic { t: 5, j: 0 }, 1u64), (ArrSpec::Sporadic { t: 8, j: 6 }, 1), (ArrSpec::Sporadic { t: 11, j: 0 }, 2)],
                        vec![SupplySpec::Dedicated]);
                    for x in c4.iter_mut() {
                        x.cap = 300_000;
                    }
                    f.extend(c4);
                    f.extend(indep_family(&format!("{nm} T{{3,4,7}} J{{0,2}} C=1"), Some(bw), vec![(0, 3), (1, 2)],
                        [3u64, 4, 7].iter().flat_map(|t| [0u64, 2].into_iter().map(move |j| (ArrSpec::Sporadic { t: *t, j }, 1u64))).collect(), sups.clone()));
                    f.extend(indep_family(&format!("{nm} T{{5,9}} J<=1 C<=2"), Some(bw), vec![(1, 2), (0, 3), (2, 1)],
                        [5u64, 9].iter().flat_map(|t| (0..=1u64).flat_map(move |j| (1..=2u64).map(move |c| (ArrSpec::Sporadic { t: *t, j }, c)))).collect(), sups.clone()));
                    f.extend(indep_family(&format!("{nm} T2..12 J<=3 C<=2"), Some(bw), vec![(1, 1), (0, 2), (2, 0)], grid(2, 12, 3, 2, true), sups.clone()));
                    f.extend(indep_family(&format!("{nm} T{{3,4,6,8,12}} J<=2 C<=2"), Some(bw), vec![(1, 2), (2, 1), (0, 3)],
                        [3u64, 4, 6, 8, 12].iter().flat_map(|t| (0..=2u64).flat_map(move |j| (1..=2u64).map(move |c| (ArrSpec::Sporadic { t: *t, j }, c)))).collect(), supplies(true)));
                }
            }
        }
        _ => unreachable!(),
    }
    f
}

pub fn run(id: &str, ctx: &mut Ctx) -> (String, Value, Vec<String>) {
    let fams = families(id, ctx.quick());
    let mut total = Acc::default();
    let mut desc = vec![];
    for fam in &fams {
        STATE_CAP.store(fam.cap, std::sync::atomic::Ordering::Relaxed);
        let acc = Mutex::new(Acc::default());
        let found = Mutex::new(Vec::<Found>::new());
        let chunk = (fam.total / 256).clamp(1, 128);
        let nchunks = (fam.total + chunk - 1) / chunk;
        let c: &Ctx = ctx;
        (0..nchunks).into_par_iter().for_each(|ci| {
            let mut a = Acc::default();
            let mut f = vec![];
            for idx in ci * chunk..((ci + 1) * chunk).min(fam.total) {
                if let Some(sys) = (fam.make)(idx) {
                    check_system(c, &sys, idx, &mut a, &mut f);
                }
            }
            acc.lock().unwrap().merge(a);
            found.lock().unwrap().extend(f);
        });
        let a = acc.into_inner().unwrap();
        let found = found.into_inner().unwrap();
        println!(
            "  family {:<40} configs={} no_claim={} systems={} states={} max={} complete={} trunc={} cap={} tight={}/{} viol={}",
            fam.name, a.tasksets, a.skipped_err, a.systems, a.states, a.max_states, a.complete, a.truncated,
            a.hep_cap_systems, a.tight, a.bounds_checked, found.len()
        );
        desc.push(json!({"family": fam.name, "configurations": a.tasksets, "systems_explored": a.systems, "states": a.states}));
        for f in found {
            ctx.violation(&f.key, &f.what, "exec-trace", f.replay);
        }
        total.merge(a);
    }
    if total.states == 0 {
        machinery_error("no states explored");
    }
    let mut cov = total.json();
    let m = cov.as_object_mut().unwrap();
    m.insert("states".into(), json!(total.states));
    m.insert("transitions".into(), json!(total.transitions));
    m.insert("traces_validated_against_impl".into(), json!(total.traces_validated));
    m.insert("samples".into(), json!(total.samples));
    m.insert("families".into(), json!(desc));
    m.insert("evaluations".into(), json!(total.systems));
    m.insert("distinct_nontrivial".into(), json!(total.nontrivial));
    m.insert("rule".into(), json!("every configuration of each family (callback parameters x priority order x supply x known/unknown flags) for which the real analysis yields a complete claim is one system; its executor x reservation model is explored to a time-unbounded fixpoint; non-trivial = some callback's worst-case response time in the model exceeds its own WCET"));
    m.insert("exhaustive".into(), json!(total.truncated == 0 && total.hep_cap_systems == 0));
    let assumptions = vec![
        "executor semantics of DESIGN.md §4.6 (executor acts only in supplied ticks; timers first; ready set refreshed only when empty; arrival at t visible at t)".to_string(),
        "reservation automaton of §4.5: exactly Q units per period within the deadline, any placement, any initial phase (validated in C09)".to_string(),
        "rta_timer blocking bound = max WCET of lower-priority timers and all polled callbacks, minus one; pp/chain interfering demand = all other callbacks".to_string(),
        "rr/bw assumed bounds = fixed point of all singleton analyses iterated upwards from the WCETs; systems without such a fixed point carry no claim and are skipped (counted)".to_string(),
        "pending-instance cap 5 per callback, burst cap 8 — hits are counted".to_string(),
    ];
    ("model_checking".to_string(), cov, assumptions)
}

pub fn replay(case: &Value) -> bool {
    if case.get("untraced").is_some() {
        let sys: RosSys = serde_json::from_value(case["sys"].clone()).unwrap_or_else(|e| machinery_error(&format!("bad replay file: {e}")));
        let ctx = Ctx::new("C04", crate::util::Tier::Quick);
        let mut acc = Acc::default();
        let mut found = vec![];
        crate::props::uni::TRACED.store(0, std::sync::atomic::Ordering::Relaxed);
        check_system(&ctx, &sys, 0, &mut acc, &mut found);
        for f in &found {
            println!("replay: {}", f.what);
        }
        return !found.is_empty();
    }
    let r: ExecReplay = serde_json::from_value(case.clone())
        .unwrap_or_else(|e| machinery_error(&format!("bad replay file: {e}")));
    let spec = r.sys.exec_spec();
    let rep = tracecheck::check_exec(&spec, r.init_res, &r.ticks);
    println!(
        "replay: trace of {} ticks, platform-rule problems: {:?}, eta-compliant: {}",
        r.ticks.len(),
        rep.problems,
        rep.eta_ok
    );
    let now = r.sys.bounds(ROS_LIMIT);
    println!(
        "replay: bounds on the current tree: {:?}; worst response of callback {} in the trace: {}",
        now,
        r.callback,
        rep.worst(r.callback)
    );
    match now.and_then(|b| b[r.callback]) {
        Some(b) => {
            rep.problems.is_empty()
                && rep.exceeds(r.callback, b)
        }
        None => false,
    }
}

#[allow(dead_code)]
fn _u<T: Sys>(_: &T) {}
