//! C01 / C02 / C03 / C18: explicit-state model checking of the uniprocessor scheduler model
//! against bounds computed by the real analyses.

use crate::analysis::*;
use crate::engine::{self, Goal, Stats, Tick};
use crate::sched::{Model, ModelOpts, Policy, Pre, UTask, UniSpec};
use crate::spec::*;
use crate::tracecheck;
use crate::util::{machinery_error, Ctx};
use rayon::prelude::*;
use serde::{Deserialize, Serialize};
use serde_json::{json, Value};
use std::sync::Mutex;

pub const BIG_LIMIT: u64 = 90;
pub static TRACED: std::sync::atomic::AtomicUsize = std::sync::atomic::AtomicUsize::new(0);
pub const MAX_TRACED: usize = 12;

/// per-task parameters of an enumerated system
#[derive(Clone, Debug, Serialize, Deserialize, PartialEq, Eq, Hash)]
pub struct TP {
    pub arr: ArrSpec,
    pub c: u64,
    pub segs: Vec<u64>,
    pub nps: u64,
    pub dl: u64,
}

pub fn max_seg(ana: Ana, t: &TP) -> u64 {
    match ana {
        Ana::FpNp | Ana::EdfNp | Ana::Fifo => t.c,
        Ana::FpLp | Ana::EdfLp => *t.segs.iter().max().unwrap(),
        Ana::FpFl | Ana::EdfFl => t.nps,
        Ana::FpP | Ana::EdfP => 1,
    }
}

pub fn to_case(ana: Ana, ts: &[TP], tua: usize, limit: u64) -> UniCase {
    let blocking = if ana.is_fp() {
        ts[tua + 1..]
            .iter()
            .map(|t| max_seg(ana, t))
            .max()
            .unwrap_or(0)
            .saturating_sub(1)
    } else {
        0
    };
    UniCase {
        ana,
        tasks: ts
            .iter()
            .map(|t| TaskSpec {
                arr: t.arr.clone(),
                cost: CostSpec::Scalar(t.c),
                deadline: t.dl,
                last_seg: match ana {
                    Ana::FpLp | Ana::EdfLp => *t.segs.last().unwrap(),
                    _ => 1,
                },
                max_seg: max_seg(ana, t),
            })
            .collect(),
        tua,
        blocking,
        limit,
    }
}

pub fn to_unispec(ana: Ana, ts: &[TP]) -> UniSpec {
    let policy = if ana.is_fp() {
        Policy::FP
    } else if ana == Ana::Fifo {
        Policy::FIFO
    } else {
        Policy::EDF
    };
    UniSpec {
        policy,
        tasks: ts
            .iter()
            .map(|t| UTask {
                arr: t.arr.clone(),
                cost: t.c,
                pre: match ana {
                    Ana::FpP | Ana::EdfP => Pre::Fixed(vec![1; t.c as usize]),
                    Ana::FpNp | Ana::EdfNp | Ana::Fifo => Pre::Fixed(vec![t.c]),
                    Ana::FpLp | Ana::EdfLp => Pre::Fixed(t.segs.clone()),
                    Ana::FpFl | Ana::EdfFl => Pre::Floating(t.nps),
                },
                deadline: t.dl,
            })
            .collect(),
    }
}

/// The smallest Ok value the analysis returns over a set of divergence limits (big, and the
/// neighbourhood of the result): an Ok must be safe whatever the limit.
pub fn bound_over_limits(ana: Ana, ts: &[TP], tua: usize) -> Option<u64> {
    let r = run_uni(&to_case(ana, ts, tua, BIG_LIMIT)).ok()?;
    let mut best = r;
    for lim in r.saturating_sub(1)..=(r + 6).min(BIG_LIMIT) {
        if let Some(v) = run_uni(&to_case(ana, ts, tua, lim)).ok() {
            best = best.min(v);
        }
    }
    Some(best)
}

#[derive(Clone, Debug)]
pub struct Box_ {
    pub name: String,
    pub ana: Ana,
    pub ntasks: usize,
    pub per_task: Vec<TP>,
    /// strict periodic automata (C18) instead of sporadic(T,0)
    pub strict_periodic: bool,
    /// per-system state cap (a search that hits it is counted as truncated and claims nothing)
    pub cap: usize,
}

pub fn sporadic_grid(tmax: u64, jmax: u64) -> Vec<ArrSpec> {
    let mut v = vec![];
    for t in 1..=tmax {
        for j in 0..=jmax {
            v.push(ArrSpec::Sporadic { t, j });
        }
    }
    v
}

/// arrival models with periods long enough for three tasks to be feasible together
pub fn feasible_menu() -> Vec<ArrSpec> {
    vec![
        ArrSpec::Sporadic { t: 6, j: 0 },
        ArrSpec::Sporadic { t: 8, j: 3 },
        ArrSpec::Sporadic { t: 12, j: 0 },
        ArrSpec::Sporadic { t: 12, j: 14 },
        ArrSpec::Curve { dmin: vec![0, 10] },
        ArrSpec::ExtCurve { dmin: vec![3, 9, 15] },
    ]
}

pub fn curve_menu() -> Vec<ArrSpec> {
    vec![
        ArrSpec::Curve { dmin: vec![0, 3] },
        ArrSpec::Curve { dmin: vec![2, 5] },
        ArrSpec::Curve {
            dmin: vec![0, 0, 5],
        },
        ArrSpec::ExtCurve { dmin: vec![0, 4] },
        ArrSpec::ExtCurve {
            dmin: vec![1, 3, 6],
        },
        ArrSpec::Jitter {
            inner: Box::new(ArrSpec::Curve { dmin: vec![3, 6] }),
            j: 1,
        },
        ArrSpec::Propagated {
            inner: Box::new(ArrSpec::ExtCurve { dmin: vec![2, 5] }),
            j: 2,
        },
        // a step-based prefix object (its steps_iter starts with the pseudo-step 0) and a
        // superposition built with sum_of
        ArrSpec::Prefix {
            horizon: 8,
            steps: vec![(1, 1), (3, 2), (7, 3)],
        },
        ArrSpec::SumOf(
            Box::new(ArrSpec::Sporadic { t: 5, j: 3 }),
            Box::new(ArrSpec::Sporadic { t: 7, j: 0 }),
        ),
    ]
}

/// expand arrival menu x costs x layouts x deadlines into per-task parameter tuples
pub fn per_task(ana: Ana, arrs: &[ArrSpec], cmax: u64, dls: &[u64]) -> Vec<TP> {
    let mut out = vec![];
    for a in arrs {
        for c in 1..=cmax {
            let segss = if matches!(ana, Ana::FpLp | Ana::EdfLp) {
                compositions(c)
            } else {
                vec![vec![c]]
            };
            for segs in segss {
                let npss: Vec<u64> = if matches!(ana, Ana::FpFl | Ana::EdfFl) {
                    (1..=c).collect()
                } else {
                    vec![1]
                };
                for nps in npss {
                    let dl_list: Vec<u64> = if ana.is_edf() { dls.to_vec() } else { vec![0] };
                    for dl in dl_list {
                        out.push(TP {
                            arr: a.clone(),
                            c,
                            segs: segs.clone(),
                            nps,
                            dl,
                        });
                    }
                }
            }
        }
    }
    out
}

#[derive(Default, Clone, Debug)]
pub struct Acc {
    pub tasksets: u64,
    pub systems: u64,
    pub skipped_err: u64,
    pub skipped_partial: u64,
    pub states: u64,
    pub transitions: u64,
    pub max_states: u64,
    pub complete: u64,
    pub truncated: u64,
    pub hep_cap_systems: u64,
    pub lp_cap_systems: u64,
    pub burst_cap_systems: u64,
    pub nontrivial: u64,
    pub bounds_checked: u64,
    pub tight: u64,
    pub loose: u64,
    pub traces_validated: u64,
    pub witness_not_eta: u64,
    pub sr_checked: u64,
    pub determinism_checked: u64,
    pub starved_blockers: u64,
    pub samples: Vec<Value>,
}

impl Acc {
    pub fn merge(&mut self, o: Acc) {
        self.tasksets += o.tasksets;
        self.systems += o.systems;
        self.skipped_err += o.skipped_err;
        self.skipped_partial += o.skipped_partial;
        self.states += o.states;
        self.transitions += o.transitions;
        self.max_states = self.max_states.max(o.max_states);
        self.complete += o.complete;
        self.truncated += o.truncated;
        self.hep_cap_systems += o.hep_cap_systems;
        self.lp_cap_systems += o.lp_cap_systems;
        self.burst_cap_systems += o.burst_cap_systems;
        self.nontrivial += o.nontrivial;
        self.bounds_checked += o.bounds_checked;
        self.tight += o.tight;
        self.loose += o.loose;
        self.traces_validated += o.traces_validated;
        self.witness_not_eta += o.witness_not_eta;
        self.sr_checked += o.sr_checked;
        self.determinism_checked += o.determinism_checked;
        self.starved_blockers += o.starved_blockers;
        for s in o.samples {
            if self.samples.len() < 6 {
                self.samples.push(s);
            }
        }
    }
    pub fn json(&self) -> Value {
        json!({
            "tasksets_enumerated": self.tasksets,
            "systems_explored": self.systems,
            "tasks_skipped_analysis_err": self.skipped_err,
            "systems_skipped_partially_unbounded": self.skipped_partial,
            "max_states_per_system": self.max_states,
            "systems_complete_fixpoint": self.complete,
            "systems_truncated": self.truncated,
            "systems_with_hep_cap_hit": self.hep_cap_systems,
            "systems_with_lp_cap_pruning": self.lp_cap_systems,
            "systems_with_burst_cap_hit": self.burst_cap_systems,
            "bounds_checked": self.bounds_checked,
            "bounds_attained_by_model": self.tight,
            "bounds_not_attained_by_model": self.loose,
            "witness_not_eta_compliant": self.witness_not_eta,
            "stateright_cross_checked_systems": self.sr_checked,
            "determinism_rechecked_systems": self.determinism_checked,
            "bounds_compared_with_blocking_restricted_to_lower_priority_tasks_that_can_execute": self.starved_blockers,
        })
    }
}

/// what a violating / witnessing trace looks like on disk
#[derive(Serialize, Deserialize, Clone, Debug)]
pub struct UniReplay {
    pub ana: Ana,
    pub params: Vec<TP>,
    pub task: usize,
    /// bounds handed to the model (per task)
    pub bounds: Vec<Option<u64>>,
    pub strict_periodic: bool,
    pub ticks: Vec<Tick>,
    pub eta_compliant: bool,
    pub observed: u64,
}

pub struct Found {
    pub key: String,
    pub what: String,
    pub replay: Value,
}

pub struct Want {
    /// report optimistic bounds (C01/C02/C03)
    pub safety: bool,
    /// report non-attained bounds (C18)
    pub tightness: bool,
}

fn ana_key(ana: Ana) -> &'static str {
    match ana {
        Ana::FpP => "fp-p",
        Ana::FpNp => "fp-np",
        Ana::FpLp => "fp-lp",
        Ana::FpFl => "fp-fl",
        Ana::EdfP => "edf-p",
        Ana::EdfNp => "edf-np",
        Ana::EdfLp => "edf-lp",
        Ana::EdfFl => "edf-fl",
        Ana::Fifo => "fifo",
    }
}

/// Explore one task set under one analysis.  Returns accumulated stats and findings.
pub fn check_taskset(
    ctx: &Ctx,
    bx: &Box_,
    ts: &[TP],
    item: u64,
    want: &Want,
    acc: &mut Acc,
    found: &mut Vec<Found>,
) {
    let ana = bx.ana;
    acc.tasksets += 1;
    let n = ts.len();
    // a panic inside the analysis is C20's subject; here the task is simply not bounded
    let bounds: Vec<Option<u64>> = (0..n)
        .map(|i| {
            crate::util::catch(|| bound_over_limits(ana, ts, i))
                .ok()
                .flatten()
        })
        .collect();
    acc.skipped_err += bounds.iter().filter(|b| b.is_none()).count() as u64;
    let single = !ana.is_fp();
    let runs: Vec<Option<usize>> = if single {
        vec![None]
    } else {
        (0..n).map(Some).collect()
    };
    let spec = to_unispec(ana, ts);
    for tua in runs {
        let b: Vec<Option<u64>> = match tua {
            Some(i) => (0..n)
                .map(|k| if k == i { bounds[k] } else { None })
                .collect(),
            None => bounds.clone(),
        };
        if b.iter().all(|x| x.is_none()) {
            continue;
        }
        if single && b.iter().any(|x| x.is_none()) {
            // some task has no bound: its backlog may grow without limit, no fixpoint
            acc.skipped_partial += 1;
            continue;
        }
        // a never-arriving task has a vacuous bound
        let mut opts = ModelOpts {
            strict_periodic: bx.strict_periodic,
            ..Default::default()
        };
        let mut m = Model::new(&spec, &b, tua, &opts);
        let mut st = engine::explore(&m, bx.cap);
        acc.systems += 1;
        acc.states += st.states as u64;
        acc.transitions += st.transitions as u64;
        acc.max_states = acc.max_states.max(st.states as u64);
        if st.truncated {
            acc.truncated += 1;
        }
        if st.caps.hep > 0 {
            acc.hep_cap_systems += 1;
        }
        if st.caps.lp > 0 {
            acc.lp_cap_systems += 1;
        }
        if st.caps.burst {
            acc.burst_cap_systems += 1;
        }
        if st.complete() && st.violation.is_none() {
            acc.complete += 1;
        }
        if let Some((task, age)) = st.violation {
            // Only the first few counterexamples of a run are traced and re-validated (each
            // trace search can cost millions of states in an overloaded system); further
            // violating systems are counted under the same key.
            if TRACED.fetch_add(1, std::sync::atomic::Ordering::Relaxed) >= MAX_TRACED {
                if want.safety || want.tightness {
                    found.push(Found {
                        key: format!("{}#{}", ana_key(ana), if want.safety { "bound-exceeded" } else { "below-the-worst-case" }),
                        what: format!(
                            "{}: Ok({}) for task {} but the model reaches a state in which a job of it has been pending for {} ticks (not individually traced); tasks {:?}",
                            ana.name(), b[task].unwrap_or(0), task, age, ts
                        ),
                        replay: json!({"untraced": true, "ana": ana, "params": ts, "task": task}),
                    });
                }
                continue;
            }
            // shortest counterexample, validated by the independent trace checker
            let (_, ticks) = engine::find_trace(&m, Goal::Violation, 8_000_000)
                .unwrap_or_else(|| machinery_error(&format!("trace search could not reproduce a violation found by the exploration: task {task} age {age} bounds {:?} tasks {:?}", b, ts)));
            let rep = tracecheck::check_uni(&spec, &ticks);
            if !rep.problems.is_empty() {
                machinery_error(&format!(
                    "trace checker rejects a counterexample of the scheduler model: {:?} on {:?}",
                    rep.problems, ts
                ));
            }
            // BFS finds the *first* violating state, possibly of another task than DFS did
            let _ = task;
            let task = (0..n)
                .find(|k| b[*k].map(|bb| rep.exceeds(*k, bb)).unwrap_or(false))
                .unwrap_or(task);
            let bound = b[task].unwrap();
            if !rep.exceeds(task, bound) {
                machinery_error(&format!("trace checker does not reproduce the violating response time: bound {} task {} worst {} report {:?} ticks {:?} tasks {:?}", bound, task, rep.worst(task), rep, ticks, ts));
            }
            acc.traces_validated += 1;
            // (for the tightness property a bound BELOW the worst case of the model is just as
            // much "not equal to the exact worst case" as one above it)
            if want.safety || want.tightness {
                let r = UniReplay {
                    ana,
                    params: ts.to_vec(),
                    task,
                    bounds: b.clone(),
                    strict_periodic: bx.strict_periodic,
                    ticks,
                    eta_compliant: rep.eta_ok,
                    observed: rep.worst(task),
                };
                found.push(Found {
                    key: format!("{}#{}", ana_key(ana), if want.safety { "bound-exceeded" } else { "below-the-worst-case" }),
                    what: format!(
                        "{}: Ok({}) for task {} but a legal schedule keeps a job pending for {} (age {} reached); tasks {:?}",
                        ana.name(), bound, task, rep.worst(task), age, ts
                    ),
                    replay: serde_json::to_value(&r).unwrap(),
                });
            }
            continue;
        }
        // bounds vs the model's exact worst case
        let checked: Vec<usize> = (0..n).filter(|k| b[*k].is_some()).collect();
        let mut any_nontrivial = false;
        for k in &checked {
            if st.max_resp[*k] as u64 > ts[*k].c {
                any_nontrivial = true;
            }
        }
        if any_nontrivial {
            acc.nontrivial += 1;
        }
        if st.complete() {
            // FIFO: one bound for all tasks -> attained by some task
            let groups: Vec<Vec<usize>> = if ana == Ana::Fifo {
                vec![checked.clone()]
            } else {
                checked.iter().map(|k| vec![*k]).collect()
            };
            for g in groups {
                // tasks that never release anything have a vacuous bound
                let g: Vec<usize> = g
                    .into_iter()
                    .filter(|k| ts[*k].arr.eta(BIG_LIMIT) > 0)
                    .collect();
                if g.is_empty() {
                    continue;
                }
                acc.bounds_checked += 1;
                let bound = b[g[0]].unwrap();
                let mut wc = g.iter().map(|k| st.max_resp[*k] as u64).max().unwrap();
                if wc < bound && st.caps.lp > 0 {
                    // lower-priority backlogs were pruned: retry with a larger cap before
                    // concluding anything
                    opts.cap_lp = 4;
                    m = Model::new(&spec, &b, tua, &opts);
                    st = engine::explore(&m, bx.cap);
                    wc = g.iter().map(|k| st.max_resp[*k] as u64).max().unwrap();
                }
                // Tightness is relative to an attainable blocking input: a lower-priority task
                // that can never execute (the intermediate priority band alone keeps the processor
                // busy forever, e.g. a strictly periodic task with C = T) cannot block, and the
                // library cannot know that.  Recompute the bound with the blocking term restricted
                // to the lower-priority tasks that do execute in some reachable transition.
                let mut bound = bound;
                if wc < bound && ana == Ana::FpNp && st.complete() {
                    if let Some(i) = tua {
                        let starved: Vec<usize> = (i + 1..n).filter(|k| !st.ran[*k]).collect();
                        if !starved.is_empty() {
                            let mut case = to_case(ana, ts, i, BIG_LIMIT);
                            case.blocking = (i + 1..n)
                                .filter(|k| st.ran[*k])
                                .map(|k| max_seg(ana, &ts[k]))
                                .max()
                                .unwrap_or(0)
                                .saturating_sub(1);
                            if let Some(b2) = run_uni(&case).ok() {
                                acc.starved_blockers += 1;
                                bound = b2;
                            }
                        }
                    }
                }
                if wc == bound {
                    acc.tight += 1;
                } else {
                    acc.loose += 1;
                    if want.tightness && st.complete() {
                        found.push(Found {
                            key: format!("{}#not-attained", ana_key(ana)),
                            what: format!(
                                "{}: Ok({}) for task(s) {:?} but the exact worst case over all schedules of the model is {}; tasks {:?}",
                                ana.name(), bound, g, wc, ts
                            ),
                            replay: json!({"ana": ana, "params": ts, "tasks": g, "bound": bound,
                                           "model_wcrt": wc, "strict_periodic": bx.strict_periodic}),
                        });
                    }
                }
            }
        }
        // sampled binding steps
        let sample_rate = if ctx.quick() { 40 } else { 400 };
        if ctx.pick(item * 8 + tua.unwrap_or(7) as u64, sample_rate) {
            // worst-case witness trace re-validated from first principles
            if let Some(k) = checked
                .iter()
                .copied()
                .max_by_key(|k| st.max_resp[*k])
                .filter(|k| st.max_resp[*k] > 0)
            {
                let goal = Goal::Resp {
                    task: k,
                    resp: st.max_resp[k],
                };
                if let Some((_, ticks)) = engine::find_trace(&m, goal, 8_000_000) {
                    let rep = tracecheck::check_uni(&spec, &ticks);
                    if !rep.problems.is_empty() {
                        machinery_error(&format!(
                            "trace checker rejects a witness trace: {:?} on {:?} {:?}",
                            rep.problems, ana, ts
                        ));
                    }
                    if rep.max_resp[k] != st.max_resp[k] as u64 {
                        machinery_error("trace checker computes a different response time");
                    }
                    acc.traces_validated += 1;
                    if !rep.eta_ok {
                        acc.witness_not_eta += 1;
                    }
                    if acc.samples.len() < 2 {
                        acc.samples.push(json!({
                            "analysis": ana.name(), "tasks": ts, "task": k, "bound": b[k],
                            "states": st.states, "transitions": st.transitions,
                            "model_wcrt": st.max_resp[k], "witness_ticks": ticks.len(),
                            "witness_first_ticks": ticks.iter().take(6).collect::<Vec<_>>(),
                        }));
                    }
                }
            }
        }
        let sr_rate = if ctx.quick() { 400 } else { 3000 };
        if st.complete() && st.states < 60_000 && ctx.pick(item * 8 + 3 + tua.unwrap_or(7) as u64, sr_rate)
        {
            let (u, v) = engine::stateright_check(std::sync::Arc::new(Model::new(&spec, &b, tua, &opts)));
            if v || u != st.states {
                machinery_error(&format!(
                    "stateright disagrees: {} unique states / violation={} vs {} / none on {:?} {:?}",
                    u, v, st.states, ana, ts
                ));
            }
            acc.sr_checked += 1;
        }
        if !ctx.quick() && ctx.pick(item * 8 + 5 + tua.unwrap_or(7) as u64, 2000) {
            let st2 = engine::explore(&Model::new(&spec, &b, tua, &opts), bx.cap);
            if st2.states != st.states || st2.transitions != st.transitions {
                machinery_error("exploration is not deterministic");
            }
            acc.determinism_checked += 1;
        }
    }
}

/// iterate the n-fold product of per-task parameters
pub fn product_index(idx: u64, base: usize, n: usize) -> Vec<usize> {
    let mut v = vec![0; n];
    let mut x = idx;
    for k in (0..n).rev() {
        v[k] = (x % base as u64) as usize;
        x /= base as u64;
    }
    v
}

pub fn run_box(ctx: &Ctx, bx: &Box_, want: &Want) -> (Acc, Vec<Found>) {
    let base = bx.per_task.len();
    let total = (base as u64).pow(bx.ntasks as u32);
    let acc = Mutex::new(Acc::default());
    let found = Mutex::new(Vec::<Found>::new());
    let chunk = (total / 256).clamp(1, 256);
    let nchunks = (total + chunk - 1) / chunk;
    (0..nchunks).into_par_iter().for_each(|ci| {
        let mut a = Acc::default();
        let mut f = vec![];
        for idx in ci * chunk..((ci + 1) * chunk).min(total) {
            let sel = product_index(idx, base, bx.ntasks);
            let ts: Vec<TP> = sel.iter().map(|k| bx.per_task[*k].clone()).collect();
            check_taskset(ctx, bx, &ts, idx, want, &mut a, &mut f);
        }
        acc.lock().unwrap().merge(a);
        found.lock().unwrap().extend(f);
    });
    let a = acc.into_inner().unwrap();
    println!(
        "  box {:<28} {:?} n={} tasksets={} systems={} states={} max={} complete={} trunc={} hepcap={} tight={}/{} viol={}",
        bx.name, bx.ana, bx.ntasks, a.tasksets, a.systems, a.states, a.max_states, a.complete,
        a.truncated, a.hep_cap_systems, a.tight, a.bounds_checked,
        found.lock().unwrap().len()
    );
    (a, found.into_inner().unwrap())
}

pub fn boxes_for(id: &str, quick: bool) -> Vec<Box_> {
    let mut v = vec![];
    let mk = |name: &str, ana: Ana, n: usize, arrs: Vec<ArrSpec>, cmax: u64, dls: &[u64], strict: bool| Box_ {
        name: name.to_string(),
        ana,
        ntasks: n,
        per_task: per_task(ana, &arrs, cmax, dls),
        strict_periodic: strict,
        cap: 2_000_000,
    };
    // systems that are not tiny (parameters in the tens, bursts of three), searched under a
    // per-system state cap: a violation found below the cap is a violation; a search that hits
    // the cap claims nothing and is counted as truncated
    let _large = |name: &str, ana: Ana, n: usize, menu: &[(u64, u64, u64)], dls: &[u64], cap: usize| {
        let mut pt = vec![];
        for (t, j, c) in menu {
            let dl_list: Vec<u64> = if ana.is_edf() { dls.iter().map(|k| if *k == 0 { *t } else { *k }).collect() } else { vec![0] };
            for dl in dl_list {
                let segs = if matches!(ana, Ana::FpLp | Ana::EdfLp) && *c > 1 { vec![c / 2, c - c / 2] } else { vec![*c] };
                pt.push(TP { arr: ArrSpec::Sporadic { t: *t, j: *j }, c: *c, segs, nps: if matches!(ana, Ana::FpFl | Ana::EdfFl) { (*c + 1) / 2 } else { 1 }, dl });
            }
        }
        Box_ { name: name.to_string(), ana, ntasks: n, per_task: pt, strict_periodic: false, cap }
    };
    let with_curves = |mut g: Vec<ArrSpec>| {
        g.extend(curve_menu());
        g
    };
    match id {
        "C01" => {
            for ana in [Ana::FpP, Ana::FpNp, Ana::FpLp, Ana::FpFl] {
                // the simplest systems first: a single task (self-interference only)
                v.push(mk("1 task T<=6 J<=12 C<=4 + curves", ana, 1, with_curves(sporadic_grid(6, 12)), 4, &[], false));
                // co-prime periods: near saturation the busy window holds dozens of jobs of the
                // analysed task and the worst one is far from the start of the window
                v.push(mk("3 tasks T{2,3,7,19} J=0", ana, 3,
                    [2u64, 3, 7, 19].iter().map(|t| ArrSpec::Sporadic { t: *t, j: 0 }).collect(),
                    if matches!(ana, Ana::FpP | Ana::FpNp) { 4 } else { 2 }, &[], false));
                if quick {
                    v.push(mk("2 tasks T<=5 J<=2 C<=2", ana, 2, sporadic_grid(5, 2), 2, &[], false));
                    v.push(mk("2 tasks curves C<=2", ana, 2, with_curves(sporadic_grid(3, 1)), 2, &[], false));
                    if matches!(ana, Ana::FpP | Ana::FpNp) {
                        v.push(mk("3 tasks T<=4 J<=1 C<=2", ana, 3, sporadic_grid(4, 1), 2, &[], false));
                    }
                } else {
                    if matches!(ana, Ana::FpP | Ana::FpNp) {
                        v.push(mk("3 tasks T<=5 J<=2 C<=3", ana, 3, sporadic_grid(5, 2), 3, &[], false));
                        v.push(mk("4 tasks T<=6(even J) C<=2", ana, 4,
                            vec![2u64, 3, 4, 6].into_iter().flat_map(|t| [0u64, 1].into_iter().map(move |j| ArrSpec::Sporadic { t, j })).collect(),
                            2, &[], false));
                    } else {
                        v.push(mk("3 tasks T<=4 J<=1 C<=3 all layouts", ana, 3, sporadic_grid(4, 1), 3, &[], false));
                    }
                    v.push(mk("2 tasks T<=8 J{0,1,2,4,9} C<=3", ana, 2,
                        (1..=8u64).flat_map(|t| [0u64, 1, 2, 4, 9].into_iter().map(move |j| ArrSpec::Sporadic { t, j })).collect(),
                        3, &[], false));
                    if matches!(ana, Ana::FpP | Ana::FpNp) {
                        v.push(mk("3 tasks curves+sporadic C<=2", ana, 3, with_curves(sporadic_grid(4, 1)), 2, &[], false));
                    } else {
                        // (with all layouts the three-task box has 1.3e5 task sets and 2.3e9 states)
                        v.push(mk("2 tasks curves+sporadic C<=3 all layouts", ana, 2, with_curves(sporadic_grid(4, 1)), 3, &[], false));
                        v.push(mk("3 tasks {Curve[0,3],Curve[2,5],ExtCurve[0,4],ExtCurve[1,3,6]} C<=2 all layouts", ana, 3,
                            vec![ArrSpec::Curve { dmin: vec![0, 3] }, ArrSpec::Curve { dmin: vec![2, 5] }, ArrSpec::ExtCurve { dmin: vec![0, 4] }, ArrSpec::ExtCurve { dmin: vec![1, 3, 6] }],
                            2, &[], false));
                    }
                }
            }
        }
        "C02" => {
            for ana in [Ana::EdfP, Ana::EdfNp, Ana::EdfLp, Ana::EdfFl] {
                v.push(mk("1 task T<=6 J<=12 C<=4 + curves D{1,5,20}", ana, 1, with_curves(sporadic_grid(6, 12)), 4, &[1, 5, 20], false));
                // (the thorough tier runs every box of the quick tier, too)
                {
                    if matches!(ana, Ana::EdfLp | Ana::EdfFl) {
                        // all segment layouts / section lengths of C <= 2 (tasks with different
                        // longest segments are what the blocking term is about)
                        v.push(mk("3 tasks {(6,0),(10,0),(10,3)} C<=2 all layouts D{3,20}", ana, 3,
                            vec![ArrSpec::Sporadic { t: 6, j: 0 }, ArrSpec::Sporadic { t: 10, j: 0 }, ArrSpec::Sporadic { t: 10, j: 3 }],
                            2, &[3, 20], false));
                    } else {
                        v.push(mk("3 tasks T{3,6,10} J{0,3} C<=2 D{3,20}", ana, 3,
                            [3u64, 6, 10].iter().flat_map(|t| [0u64, 3].into_iter().map(move |j| ArrSpec::Sporadic { t: *t, j })).collect(),
                            2, &[3, 20], false));
                    }
                    v.push(mk("3 tasks T{2,3,7,19} J=0 C<=3 D{6,20}", ana, 3,
                        [2u64, 3, 7, 19].iter().map(|t| ArrSpec::Sporadic { t: *t, j: 0 }).collect(),
                        if matches!(ana, Ana::EdfP | Ana::EdfNp) { 3 } else { 2 }, &[6, 20], false));
                    // four tasks: three potential blockers / three interfering tasks in every
                    // deadline order (table look-ups and binary searches over the other tasks
                    // degenerate to the right answer with two entries)
                    v.push(mk("4 tasks T{4,5} C<=2 D{1,3,5}", ana, 4, vec![ArrSpec::Sporadic { t: 4, j: 0 }, ArrSpec::Sporadic { t: 5, j: 0 }],
                        if matches!(ana, Ana::EdfLp | Ana::EdfFl) { 1 } else { 2 }, &[1, 3, 5], false));
                    // a never-arriving task anywhere in a list of four (whatever filters, zips or
                    // indexes the other tasks must stay aligned)
                    {
                        let tp = |arr: ArrSpec, c: u64, dl: u64| TP { arr, c, segs: vec![c], nps: 1, dl };
                        v.push(Box_ {
                            name: "4 tasks from {Never, (7,0)C3D5, (5,0)C2D6, (9,0)C1D9, (7,0)C1D8}".into(),
                            ana,
                            ntasks: 4,
                            per_task: vec![
                                tp(ArrSpec::Never, 2, 7),
                                tp(ArrSpec::Sporadic { t: 7, j: 0 }, 3, 5),
                                tp(ArrSpec::Sporadic { t: 5, j: 0 }, 2, 6),
                                tp(ArrSpec::Sporadic { t: 9, j: 0 }, 1, 9),
                                tp(ArrSpec::Sporadic { t: 7, j: 0 }, 1, 8),
                            ],
                            strict_periodic: false,
                            cap: 2_000_000,
                        });
                    }
                    v.push(mk("2 tasks T<=5 J<=2 C<=2 D{1,3,6}", ana, 2, sporadic_grid(5, 2), 2, &[1, 3, 6], false));
                    v.push(mk("2 tasks curves C<=2 D{2,5}", ana, 2, with_curves(sporadic_grid(3, 1)), 2, &[2, 5], false));
                }
                if !quick {
                    v.push(mk("3 tasks T{2,3,5,7,19} J=0 C<=3 D{4,9,20}", ana, 3,
                        [2u64, 3, 5, 7, 19].iter().map(|t| ArrSpec::Sporadic { t: *t, j: 0 }).collect(),
                        if matches!(ana, Ana::EdfP | Ana::EdfNp) { 3 } else { 2 }, &[4, 9, 20], false));
                    v.push(mk("4 tasks T{4,5,6} C<=2 D{1,3,5}", ana, 4, vec![ArrSpec::Sporadic { t: 4, j: 0 }, ArrSpec::Sporadic { t: 5, j: 0 }, ArrSpec::Sporadic { t: 6, j: 0 }],
                        if matches!(ana, Ana::EdfLp | Ana::EdfFl) { 1 } else { 2 }, &[1, 3, 5], false));
                    v.push(mk("3 tasks T<=5 J<=2 C<=2 D{1,3,6}", ana, 3, sporadic_grid(5, 2), 2, &[1, 3, 6], false));
                    v.push(mk("2 tasks T<=7 J<=4 C<=3 D{1,2,4,7,10,14}", ana, 2, sporadic_grid(7, 4), 3, &[1, 2, 4, 7, 10, 14], false));
                    v.push(mk("3 tasks curves+sporadic C<=2 D{2,5}", ana, 3, with_curves(sporadic_grid(3, 1)), 2, &[2, 5], false));
                }
            }
        }
        "C03" => {
            v.push(mk("1 task T<=6 J<=12 C<=4 + curves", Ana::Fifo, 1, with_curves(sporadic_grid(6, 12)), 4, &[], false));
            // superpositions built with sum_of (first summand jittered: its steps are not those of
            // the second) next to plain sporadic tasks
            let sums = |tl: &[u64], jl: &[u64], t2l: &[u64]| {
                let mut g = vec![];
                for t1 in tl {
                    for j1 in jl {
                        for t2 in t2l {
                            g.push(ArrSpec::SumOf(Box::new(ArrSpec::Sporadic { t: *t1, j: *j1 }), Box::new(ArrSpec::Sporadic { t: *t2, j: 0 })));
                        }
                    }
                }
                for t in [3u64, 6, 12] {
                    g.push(ArrSpec::Sporadic { t, j: 0 });
                }
                g
            };
            if quick {
                v.push(mk("2 tasks sum_of((T1,J1),(T2,0)) T1{4,6} J1{2,5} T2{5,7} + sporadic, C<=2", Ana::Fifo, 2, sums(&[4, 6], &[2, 5], &[5, 7]), 2, &[], false));
            } else {
                v.push(mk("2 tasks sum_of((T1,J1),(T2,0)) T1{4,6,10} J1{2,5,8} T2{5,7,10} + sporadic, C<=3", Ana::Fifo, 2, sums(&[4, 6, 10], &[2, 5, 8], &[5, 7, 10]), 3, &[], false));
                v.push(mk("3 tasks sum_of((T1,J1),(T2,0)) T1{6} J1{2,5} T2{5,7} + sporadic, C<=2", Ana::Fifo, 3, sums(&[6], &[2, 5], &[5, 7]), 2, &[], false));
            }
            v.push(mk("3 tasks T{2,3,7,19} J=0 C<=4", Ana::Fifo, 3, [2u64, 3, 7, 19].iter().map(|t| ArrSpec::Sporadic { t: *t, j: 0 }).collect(), 4, &[], false));
            // a bursty stream (pairs of simultaneous activations) with propagated jitter next to two
            // slow tasks: the steps just behind the jitter window carry the worst offset
            {
                let tp = |arr: ArrSpec, c: u64| TP { arr, c, segs: vec![c], nps: 1, dl: 0 };
                v.push(Box_ {
                    name: "3 tasks from {Jitter(Curve[0,10],5)C3, Jitter(Curve[0,7],3)C2, (25,0)C2, (20,0)C1}".into(),
                    ana: Ana::Fifo,
                    ntasks: 3,
                    per_task: vec![
                        tp(ArrSpec::Jitter { inner: Box::new(ArrSpec::Curve { dmin: vec![0, 10] }), j: 5 }, 3),
                        tp(ArrSpec::Jitter { inner: Box::new(ArrSpec::Curve { dmin: vec![0, 7] }), j: 3 }, 2),
                        tp(ArrSpec::Sporadic { t: 25, j: 0 }, 2),
                        tp(ArrSpec::Sporadic { t: 20, j: 0 }, 1),
                    ],
                    strict_periodic: false,
                    cap: 2_000_000,
                });
            }
            // four and five tasks (aggregates with more than three components)
            if quick {
                v.push(mk("4 tasks {(5,0),(6,5)} C<=2", Ana::Fifo, 4, vec![ArrSpec::Sporadic { t: 5, j: 0 }, ArrSpec::Sporadic { t: 6, j: 5 }], 2, &[], false));
            } else {
                v.push(mk("4 tasks {(5,0),(6,5),(4,0)} C<=2", Ana::Fifo, 4, vec![ArrSpec::Sporadic { t: 5, j: 0 }, ArrSpec::Sporadic { t: 6, j: 5 }, ArrSpec::Sporadic { t: 4, j: 0 }], 2, &[], false));
                v.push(mk("5 tasks {(6,0),(7,6)} C=1", Ana::Fifo, 5, vec![ArrSpec::Sporadic { t: 6, j: 0 }, ArrSpec::Sporadic { t: 7, j: 6 }], 1, &[], false));
            }
            if quick {
                v.push(mk("2 tasks T<=6 J<=3 C<=3", Ana::Fifo, 2, sporadic_grid(6, 3), 3, &[], false));
                v.push(mk("3 tasks T<=4 J<=1 C<=2", Ana::Fifo, 3, sporadic_grid(4, 1), 2, &[], false));
                v.push(mk("2 tasks curves C<=2", Ana::Fifo, 2, with_curves(sporadic_grid(3, 1)), 2, &[], false));
            } else {
                v.push(mk("3 tasks T<=6 J<=3 C<=3", Ana::Fifo, 3, sporadic_grid(6, 3), 3, &[], false));
                v.push(mk("4 tasks T<=6 J<=1 C<=2", Ana::Fifo, 4,
                    vec![2u64, 3, 4, 6].into_iter().flat_map(|t| [0u64, 1].into_iter().map(move |j| ArrSpec::Sporadic { t, j })).collect(),
                    2, &[], false));
                v.push(mk("2 tasks T<=9 J{0,1,2,4,9} C<=3", Ana::Fifo, 2,
                    (1..=9u64).flat_map(|t| [0u64, 1, 2, 4, 9].into_iter().map(move |j| ArrSpec::Sporadic { t, j })).collect(),
                    3, &[], false));
                v.push(mk("3 tasks curves+sporadic C<=2", Ana::Fifo, 3, with_curves(sporadic_grid(4, 1)), 2, &[], false));
            }
        }
        "C18" => {
            // exact & realisable curves only: periodic (strict automaton), sporadic with jitter,
            // auto-extrapolating super-additive delta-min curves
            let exact = |tmax: u64, jmax: u64| {
                let mut g = sporadic_grid(tmax, jmax);
                for t in 1..=tmax {
                    g.push(ArrSpec::Periodic { t });
                }
                g.push(ArrSpec::ExtCurve { dmin: vec![0, 4] });
                g.push(ArrSpec::ExtCurve { dmin: vec![1, 3, 6] });
                g.push(ArrSpec::ExtCurve { dmin: vec![2, 4] });
                g
            };
            for ana in [Ana::FpP, Ana::FpNp, Ana::Fifo] {
                v.push(mk("1 task T<=6 J<=12 C<=4 +periodic +extcurves", ana, 1, exact(6, 12), 4, &[], true));
                if quick {
                    v.push(mk("2 tasks T<=5 J<=2 C<=2 +periodic +extcurves", ana, 2, exact(5, 2), 2, &[], true));
                    v.push(mk("3 tasks T<=4 J<=1 C<=2", ana, 3, sporadic_grid(4, 1), 2, &[], true));
                    // larger jitter next to a second task: the worst job is a later one of the busy
                    // window and the per-offset bound is not unimodal in the offset
                    v.push(mk("2 tasks T{2,3,5,7} J{0,3,5} C<=3", ana, 2,
                        [2u64, 3, 5, 7].into_iter().flat_map(|t| [0u64, 3, 5].into_iter().map(move |j| ArrSpec::Sporadic { t, j })).collect(),
                        3, &[], true));
                } else {
                    v.push(mk("3 tasks T<=6 J<=3 C<=3", ana, 3, sporadic_grid(6, 3), 3, &[], true));
                    v.push(mk("3 tasks T<=4 J<=1 C<=2 +periodic +extcurves", ana, 3, exact(4, 1), 2, &[], true));
                    v.push(mk("2 tasks T<=8 J{0,1,2,4,9} C<=3 +periodic", ana, 2,
                        (1..=8u64).flat_map(|t| [0u64, 1, 2, 4, 9].into_iter().map(move |j| ArrSpec::Sporadic { t, j }))
                            .chain((1..=8u64).map(|t| ArrSpec::Periodic { t })).collect(),
                        3, &[], true));
                }
            }
        }
        _ => unreachable!(),
    }
    v
}

pub fn run(id: &str, ctx: &mut Ctx) -> (String, Value, Vec<String>) {
    let want = Want {
        safety: id != "C18",
        tightness: id == "C18",
    };
    let boxes = boxes_for(id, ctx.quick());
    let mut total = Acc::default();
    let mut box_desc = vec![];
    for bx in &boxes {
        let (a, found) = run_box(ctx, bx, &want);
        box_desc.push(json!({"box": bx.name, "analysis": bx.ana.name(), "tasks": bx.ntasks,
            "per_task_choices": bx.per_task.len(), "systems_explored": a.systems, "states": a.states,
            "strict_periodic_automata": bx.strict_periodic}));
        for f in found {
            ctx.violation(&f.key, &f.what, "uni-trace", f.replay);
        }
        total.merge(a);
    }
    if total.states == 0 {
        machinery_error("no states explored");
    }
    let far = if id == "C18" { far_tightness(ctx) } else { json!(null) };
    let mut cov = total.json();
    let m = cov.as_object_mut().unwrap();
    m.insert("states".into(), json!(total.states));
    m.insert("transitions".into(), json!(total.transitions));
    m.insert(
        "traces_validated_against_impl".into(),
        json!(total.traces_validated),
    );
    m.insert("samples".into(), json!(total.samples));
    m.insert("boxes".into(), json!(box_desc));
    if id == "C18" {
        m.insert("far_windows".into(), far);
    }
    m.insert("evaluations".into(), json!(total.systems));
    m.insert("distinct_nontrivial".into(), json!(total.nontrivial));
    m.insert("rule".into(), json!("every task set of each box x every priority level (FP) is one system; each system's scheduler model is explored to a time-unbounded fixpoint; non-trivial = the model's worst-case response time exceeds the task's own WCET (interference/blocking actually occurred)"));
    m.insert("exhaustive".into(), json!(total.truncated == 0 && total.hep_cap_systems == 0));
    let assumptions = vec![
        "scheduler/job/preemption model of DESIGN.md §4.3-4.4 is the platform the property talks about".to_string(),
        "arrival automata of §4.2 generate exactly the documented processes (self-validated in C10)".to_string(),
        "parameter boxes as listed; per system: pending-job caps (hep 8, lower-priority 2 / busy-window-sized for strictly periodic tasks, burst 8) — hits are counted".to_string(),
        "unit-time discretisation; distinct FP priorities; scalar WCETs".to_string(),
    ];
    ("model_checking".to_string(), cov, assumptions)
}

/// C18, beyond what a scheduler search can reach (busy windows with more than a thousand jobs):
/// the bound of a single task on an otherwise idle processor is attained iff its arrival curve
/// is; so for every auto-extrapolating curve of the box the curve value at far windows is compared
/// with the periodic extension of the maximum over all admissible sequences (max(x + P) =
/// max(x) + K from some point on; (P, K) detected and validated on the explored range).
fn far_tightness(ctx: &mut Ctx) -> Value {
    use response_time_analysis::arrival::ArrivalBound;
    let (maxlen, hi) = if ctx.quick() { (3, 5) } else { (4, 7) };
    let h = 150usize;
    let mut curves = 0u64;
    let mut evals = 0u64;
    let mut skipped = 0u64;
    for pf in crate::spec::nondecreasing_prefixes(maxlen, hi) {
        if !crate::spec::is_superadditive(&pf) {
            continue;
        }
        let (m, ..) = crate::automata::Aut::Dmin { d: pf.iter().map(|x| *x as i16).collect() }.max_events(h);
        // smallest period of the tail
        let found = (1..=h / 3).find_map(|p| {
            let k = m[h / 3 + p] - m[h / 3];
            if (h / 3..=h - p).all(|x| m[x + p] == m[x] + k) { Some((p as u64, k)) } else { None }
        });
        let (p, k) = match found {
            Some(x) if x.1 > 0 => x,
            _ => {
                skipped += 1;
                continue;
            }
        };
        curves += 1;
        let lo = (h / 3) as u64;
        for jobs in [1100u64, 1600, 2700] {
            // a window that holds about `jobs` activations
            let far = lo + (jobs / k + 1) * p + (jobs % 7);
            let base = lo + (far - lo) % p;
            let want = m[base as usize] + (far - base) / p * k;
            evals += 1;
            let pf2 = pf.clone();
            let got = crate::util::with_timeout(30.0, move || {
                response_time_analysis::arrival::ExtrapolatingCurve::new(ArrSpec::curve(&pf2)).number_arrivals(crate::spec::d(far)) as u64
            });
            match got {
                Ok(g) if g == want => {}
                Ok(g) => ctx.violation(
                    &format!("arrival::ExtrapolatingCurve::number_arrivals#{}+far-window", if g > want { "not-attained" } else { "undercounts" }),
                    &format!("ExtrapolatingCurve over {:?}: number_arrivals({far}) = {g}, the maximum over all sequences that respect the prefix is {want} (periodic extension: +{k} per {p} ticks)", pf),
                    "extcurve-far",
                    json!({"dmin": pf, "delta": far, "want": want}),
                ),
                Err(e) => ctx.violation("arrival::ExtrapolatingCurve::number_arrivals#fails+far-window", &format!("ExtrapolatingCurve over {:?}: number_arrivals({far}): {:?}", pf, e), "extcurve-far", json!({"dmin": pf, "delta": far, "want": want})),
            }
        }
    }
    json!({"rule": "every super-additive delta-min prefix of the box as an ExtrapolatingCurve: number_arrivals at three far windows (about 1100, 1600, 2700 activations) == periodic extension of the Dmin automaton's maximum", "curves": curves, "evaluations": evals, "curves_without_detected_period": skipped})
}

pub fn replay_far(case: &Value) -> bool {
    use response_time_analysis::arrival::ArrivalBound;
    let pf: Vec<u64> = serde_json::from_value(case["dmin"].clone()).unwrap();
    let far = case["delta"].as_u64().unwrap();
    let want = case["want"].as_u64().unwrap();
    let got = crate::util::with_timeout(60.0, move || response_time_analysis::arrival::ExtrapolatingCurve::new(ArrSpec::curve(&pf)).number_arrivals(crate::spec::d(far)) as u64);
    println!("replay: library {:?}, periodic extension of the model maximum {want}", got);
    got != Ok(want)
}

/// `replay`: recompute the bound from the current tree, validate the stored trace from first
/// principles, and say whether the stored job still exceeds the bound.  No explorer involved.
pub fn replay(case: &Value) -> bool {
    let r: UniReplay = match serde_json::from_value(case.clone()) {
        Ok(r) => r,
        Err(_) => {
            // tightness artefact: re-run the single system
            let ana: Ana = serde_json::from_value(case["ana"].clone()).unwrap();
            let ts: Vec<TP> = serde_json::from_value(case["params"].clone()).unwrap();
            let strict = case["strict_periodic"].as_bool().unwrap_or(case.get("untraced").is_none());
            let bx = Box_ { name: "replay".into(), ana, ntasks: ts.len(), per_task: vec![], strict_periodic: strict, cap: 2_000_000 };
            let ctx = Ctx::new("C18", crate::util::Tier::Quick);
            let mut acc = Acc::default();
            let mut found = vec![];
            let untraced = case.get("untraced").is_some();
            TRACED.store(0, std::sync::atomic::Ordering::Relaxed);
            check_taskset(&ctx, &bx, &ts, 0, &Want { safety: untraced, tightness: !untraced }, &mut acc, &mut found);
            for f in &found {
                println!("replay: {}", f.what);
            }
            return !found.is_empty();
        }
    };
    let spec = to_unispec(r.ana, &r.params);
    let rep = tracecheck::check_uni(&spec, &r.ticks);
    println!("replay: trace of {} ticks, platform-rule problems: {:?}, eta-compliant: {}", r.ticks.len(), rep.problems, rep.eta_ok);
    let now = bound_over_limits(r.ana, &r.params, r.task);
    println!("replay: bound on the current tree for task {}: {:?}; worst response in the trace: {}", r.task, now, rep.worst(r.task));
    match now {
        Some(b) => rep.problems.is_empty() && rep.exceeds(r.task, b),
        None => false,
    }
}

#[allow(dead_code)]
fn _unused(_: &Stats, _: &dyn Fn(&Model) -> usize) {}
