//! Naive reference evaluators written from the defining equations (DESIGN §6 C06-C08):
//! linear scans, every offset, no pruning, no iteration tricks.  They see the inputs only
//! through black-box `service_needed` / `number_arrivals` / `cost_of_jobs` calls on the same real
//! objects (curve correctness is the subject of C10/C11/C16, not of these evaluators), and the
//! supply only through an SBF computed from the reservation automaton.

use crate::analysis::*;
use crate::automata::Reservation;
use crate::spec::*;
use response_time_analysis::arrival::ArrivalBound;
use response_time_analysis::demand::RequestBound;
use response_time_analysis::wcet::JobCostModel;

/// least x in 0..=limit with x >= w(max(x,1)) on a dedicated processor
pub fn lfp_dedicated(limit: u64, w: &dyn Fn(u64) -> u64) -> Option<u64> {
    (0..=limit).find(|x| *x >= w((*x).max(1)))
}

/// Reference supply: sbf table from the reservation automaton (min service over all paths).
pub struct RefSupply {
    pub sbf: Vec<u64>,
    dedicated: bool,
}

impl RefSupply {
    pub fn new(s: &SupplySpec, horizon: usize) -> RefSupply {
        let (q, dl, p) = s.qdp();
        if q == p {
            return RefSupply {
                sbf: vec![],
                dedicated: true,
            };
        }
        let r = Reservation {
            q: q as u8,
            dl: dl as u8,
            p: p as u8,
        };
        RefSupply {
            sbf: r.sbf(horizon).0,
            dedicated: false,
        }
    }
    pub fn sbf(&self, delta: u64) -> u64 {
        if self.dedicated {
            delta
        } else {
            *self
                .sbf
                .get(delta as usize)
                .expect("reference SBF horizon too short")
        }
    }
    /// least t with sbf(t) >= demand (linear scan)
    pub fn service_time(&self, demand: u64) -> u64 {
        (0..).find(|t| self.sbf(*t) >= demand).unwrap()
    }
    /// least r in 0..=limit with sbf(a + r) >= w(max(r,1))
    pub fn lfp(&self, a: u64, limit: u64, w: &dyn Fn(u64) -> u64) -> Option<u64> {
        (0..=limit).find(|r| self.sbf(a + *r) >= w((*r).max(1)))
    }
}

/// C06: naive evaluation of the nine dedicated-processor analyses.
/// Returns None for Err (some least solution does not exist at or below the limit).
pub fn ref_uni(c: &UniCase) -> Option<u64> {
    let rbfs: Vec<DynRbf> = c.tasks.iter().map(|t| rbf(&t.arr, &t.cost)).collect();
    let f = |k: usize, x: u64| -> u64 {
        if x == 0 {
            0
        } else {
            sn(&rbfs[k], x)
        }
    };
    let i = c.tua;
    let limit = c.limit;
    let n = c.tasks.len();
    match c.ana {
        Ana::FpP | Ana::FpNp | Ana::FpLp | Ana::FpFl => {
            let (bb, rem) = match c.ana {
                Ana::FpP => (0, 0),
                Ana::FpNp => (c.blocking, c.tasks[i].cost.scalar() - 1),
                Ana::FpLp => (c.blocking, c.tasks[i].last_seg - 1),
                _ => (c.blocking, 0),
            };
            let hep = |x: u64| -> u64 { (0..i).map(|k| f(k, x)).sum() };
            let l = lfp_dedicated(limit, &|x| bb + hep(x) + f(i, x))?;
            let mut best = 0;
            for a in 0..l {
                // offsets at which no job of the task under analysis can arrive carry no claim
                if f(i, a + 1) == 0 {
                    continue;
                }
                let af = lfp_dedicated(limit, &|x| bb + (f(i, a + 1) - rem) + hep(x))?;
                best = best.max(af.saturating_sub(a) + rem);
            }
            Some(best)
        }
        Ana::EdfP | Ana::EdfNp | Ana::EdfLp | Ana::EdfFl => {
            let others: Vec<usize> = (0..n).filter(|k| *k != i).collect();
            let rem = match c.ana {
                Ana::EdfNp => c.tasks[i].cost.scalar() - 1,
                Ana::EdfLp => c.tasks[i].last_seg - 1,
                _ => 0,
            };
            let np = |k: usize| -> u64 {
                match c.ana {
                    Ana::EdfP => 1,
                    Ana::EdfNp => c.tasks[k].cost.scalar(),
                    _ => c.tasks[k].max_seg,
                }
            };
            let di = c.tasks[i].deadline;
            let l = lfp_dedicated(limit, &|x| (0..n).map(|k| f(k, x)).sum())?;
            let mut best = 0;
            for a in 0..l {
                if f(i, a + 1) == 0 {
                    continue;
                }
                let blocking = others
                    .iter()
                    .filter(|o| c.tasks[**o].deadline > di + a && f(**o, 1) > 0)
                    .map(|o| np(*o).saturating_sub(1))
                    .max()
                    .unwrap_or(0);
                let af = lfp_dedicated(limit, &|x| {
                    blocking
                        + (f(i, a + 1) - rem)
                        + others
                            .iter()
                            .map(|o| {
                                f(
                                    *o,
                                    x.min((a + 1 + di).saturating_sub(c.tasks[*o].deadline)),
                                )
                            })
                            .sum::<u64>()
                })?;
                best = best.max(af.saturating_sub(a) + rem);
            }
            Some(best)
        }
        Ana::Fifo => {
            let tot = |x: u64| -> u64 { (0..n).map(|k| f(k, x)).sum() };
            let l = lfp_dedicated(limit, &tot)?;
            Some((0..l).map(|a| tot(a + 1).saturating_sub(a)).max().unwrap_or(0))
        }
    }
}

fn eta(a: &DynArr, delta: u64) -> usize {
    a.number_arrivals(d(delta))
}
fn cost(c: &DynCost, n: usize) -> u64 {
    su(c.cost_of_jobs(n))
}

/// C07: naive evaluation of the six ROS 2 analyses.  None = Err.
pub fn ref_ros(c: &RosCase) -> Option<u64> {
    if let RosCase::ChainSummed { supply, src, costs, others, limit } = c {
        // the defining inequalities do not depend on how the caller groups the chain's demand
        return ref_ros(&RosCase::Chain {
            supply: supply.clone(),
            src: src.clone(),
            costs: costs.iter().map(|c| CostSpec::Scalar(*c)).collect(),
            others: others.clone(),
            limit: *limit,
        });
    }
    match c {
        RosCase::EventSource {
            supply,
            demand,
            limit,
        } => {
            let rb: Vec<DynRbf> = demand.iter().map(|(a, c)| rbf(a, c)).collect();
            let tot = |x: u64| -> u64 { rb.iter().map(|r| sn(r, x)).sum() };
            ecrts(supply, *limit, &tot, &tot, &|a, _r| tot(a + 1))
        }
        RosCase::Timer {
            supply,
            own,
            hp,
            blocking,
            limit,
        } => {
            let o = rbf(&own.0, &own.1);
            let h: Vec<DynRbf> = hp.iter().map(|(a, c)| rbf(a, c)).collect();
            let own_f = |x: u64| sn(&o, x);
            let hp_f = |x: u64| -> u64 { h.iter().map(|r| sn(r, x)).sum() };
            let b = *blocking;
            ecrts(
                supply,
                *limit,
                &own_f,
                &|x| own_f(x) + b + hp_f(x),
                &|a, r| {
                    let own_wcet = su(o.least_wcet_in_interval(d(a + r)));
                    let iv = if r > own_wcet { a + r - own_wcet + 1 } else { a + 1 };
                    own_f(a + 1) + hp_f(iv) + b
                },
            )
        }
        RosCase::Pp {
            supply,
            own,
            others,
            limit,
        } => {
            let o = rbf(&own.0, &own.1);
            let h: Vec<DynRbf> = others.iter().map(|(a, c)| rbf(a, c)).collect();
            let own_f = |x: u64| sn(&o, x);
            let oth_f = |x: u64| -> u64 { h.iter().map(|r| sn(r, x)).sum() };
            ecrts(
                supply,
                *limit,
                &own_f,
                &|x| own_f(x) + oth_f(x),
                &|a, r| {
                    let own_wcet = su(o.least_wcet_in_interval(d(a + r)));
                    let iv = if r > own_wcet { a + r - own_wcet + 1 } else { a + 1 };
                    own_f(a + 1) + oth_f(iv)
                },
            )
        }
        RosCase::Chain {
            supply,
            src,
            costs,
            others,
            limit,
        } => {
            let all: Vec<DynRbf> = costs.iter().map(|c| rbf(src, c)).collect();
            let last = all.last().unwrap();
            let h: Vec<DynRbf> = others.iter().map(|(a, c)| rbf(a, c)).collect();
            let last_f = |x: u64| sn(last, x);
            let prefix_f = |x: u64| -> u64 { all[..all.len() - 1].iter().map(|r| sn(r, x)).sum() };
            let full_f = |x: u64| -> u64 { all.iter().map(|r| sn(r, x)).sum() };
            let oth_f = |x: u64| -> u64 { h.iter().map(|r| sn(r, x)).sum() };
            ecrts(
                supply,
                *limit,
                &full_f,
                &|x| full_f(x) + oth_f(x),
                &|a, r| {
                    let own_wcet = su(last.least_wcet_in_interval(d(a + r)));
                    let iv = if r > own_wcet { a + r - own_wcet + 1 } else { a + 1 };
                    last_f(a + 1) + prefix_f(iv) + oth_f(iv)
                },
            )
        }
        RosCase::ChainSummed { .. } => unreachable!(),
        RosCase::ChainGeneral {
            supply,
            chain,
            others,
            limit,
        } => {
            let all: Vec<DynRbf> = chain.iter().map(|(a, c)| rbf(a, c)).collect();
            let last = all.last().unwrap();
            let h: Vec<DynRbf> = others.iter().map(|(a, c)| rbf(a, c)).collect();
            let last_f = |x: u64| sn(last, x);
            let prefix_f = |x: u64| -> u64 { all[..all.len() - 1].iter().map(|r| sn(r, x)).sum() };
            let full_f = |x: u64| -> u64 { all.iter().map(|r| sn(r, x)).sum() };
            let oth_f = |x: u64| -> u64 { h.iter().map(|r| sn(r, x)).sum() };
            ecrts(
                supply,
                *limit,
                &full_f,
                &|x| full_f(x) + oth_f(x),
                &|a, r| {
                    let own_wcet = su(last.least_wcet_in_interval(d(a + r)));
                    let iv = if r > own_wcet { a + r - own_wcet + 1 } else { a + 1 };
                    last_f(a + 1) + prefix_f(iv) + oth_f(iv)
                },
            )
        }
        RosCase::Sub {
            bw,
            supply,
            workload,
            subchain,
            limit,
        } => {
            let arrs: Vec<DynArr> = workload.iter().map(|w| w.arr.build()).collect();
            let costs: Vec<DynCost> = workload.iter().map(|w| w.cost.build()).collect();
            let e = *subchain.last().unwrap();
            let npp: usize = subchain
                .iter()
                .map(|k| eta(&arrs[*k], workload[*k].assumed))
                .sum();
            let higher = |inf: Kind, reference: Kind| -> Option<usize> {
                // extra instance allowed for a polled callback with known priority
                match (inf, reference) {
                    (Kind::Polled(a), Kind::Polled(b)) => Some((a < b) as usize),
                    _ => None,
                }
            };
            if !*bw {
                let sup = RefSupply::new(supply, (2 * *limit + 50) as usize);
                let self_inst = |s: u64| -> usize {
                    eta(&arrs[e], (s + workload[e].assumed).saturating_sub(1)).saturating_sub(1)
                };
                let rhs = |s: u64| -> u64 {
                    let mut tot = 1;
                    for k in 0..workload.len() {
                        if k == e {
                            continue;
                        }
                        let arrived = eta(&arrs[k], (s + workload[k].assumed).saturating_sub(1));
                        let nj = match workload[k].kind {
                            Kind::Timer | Kind::EventSource => arrived,
                            Kind::PolledUnknown => arrived.min(npp + 1),
                            Kind::Polled(_) => match higher(workload[k].kind, workload[e].kind) {
                                Some(x) => arrived.min(npp + x),
                                None => arrived.min(npp + 1),
                            },
                        };
                        tot += cost(&costs[k], nj);
                    }
                    tot + cost(&costs[e], self_inst(s))
                };
                let s_star = sup.lfp(0, *limit, &rhs)?;
                let nself = self_inst(s_star);
                let omega = cost(&costs[e], nself + 1) - cost(&costs[e], nself);
                Some(sup.service_time(sup.sbf(s_star).saturating_sub(1) + omega))
            } else {
                let sup = RefSupply::new(supply, (3 * *limit + 50) as usize);
                let singleton = subchain.len() == 1;
                let interference = |delta: u64, ta: u64| -> u64 {
                    let mut tot = 0;
                    for k in 0..workload.len() {
                        if k == e {
                            continue;
                        }
                        let arrived = eta(&arrs[k], delta);
                        let arrived_bw = eta(&arrs[k], ta) + npp;
                        let nj = match workload[k].kind {
                            Kind::Timer | Kind::EventSource => arrived,
                            Kind::PolledUnknown => arrived.min(arrived_bw + 1),
                            Kind::Polled(_) => match higher(workload[k].kind, workload[e].kind) {
                                Some(x) => arrived.min(arrived_bw + x),
                                None => arrived.min(arrived_bw + 1),
                            },
                        };
                        tot += cost(&costs[k], nj);
                    }
                    tot
                };
                let max_offset = sup.lfp(0, *limit, &|t| {
                    1 + interference(t, t) + cost(&costs[e], eta(&arrs[e], t))
                })?;
                let mut best = 0;
                for ta in 0..max_offset {
                    // activations at which no instance of the analysed callback can arrive
                    // carry no claim
                    if eta(&arrs[e], ta + 1) == 0 {
                        continue;
                    }
                    let nself = eta(&arrs[e], ta + 1).saturating_sub(1);
                    let si = cost(&costs[e], nself);
                    let s_star = sup.lfp(0, *limit, &|s| 1 + interference(s, ta) + si)?;
                    let omega = cost(&costs[e], nself + 1) - cost(&costs[e], nself);
                    let f_star = sup.service_time(sup.sbf(s_star).saturating_sub(1) + omega);
                    let r = if singleton {
                        f_star.saturating_sub(ta)
                    } else {
                        f_star
                    };
                    best = best.max(r);
                }
                Some(best)
            }
        }
    }
}

/// shared shape of the ecrts19 analyses: busy window, then every offset 0..=max_bw at which an
/// instance of the analysed callback can arrive
fn ecrts(
    supply: &SupplySpec,
    limit: u64,
    own: &dyn Fn(u64) -> u64,
    bw_rhs: &dyn Fn(u64) -> u64,
    rhs: &dyn Fn(u64, u64) -> u64,
) -> Option<u64> {
    let sup = RefSupply::new(supply, (3 * limit + 50) as usize);
    let max_bw = sup.lfp(0, limit, bw_rhs)?;
    let mut best = 0;
    for a in 0..=max_bw {
        if own(a + 1) == 0 {
            continue;
        }
        let r = sup.lfp(a, limit, &|r| rhs(a, r))?;
        best = best.max(r);
    }
    Some(best)
}
