//! Explicit-state uniprocessor scheduler model (DESIGN §4.3/§4.4): FP / EDF / FIFO on a dedicated
//! unit-speed processor, with fixed segment layouts or floating non-preemptive regions.
//! This is a *specification of the platform the analyses make claims about* (trusted base).

use crate::automata::{AState, Aut};
use crate::engine::{Caps, End, Sys, Tick, MAXT};
use crate::spec::ArrSpec;
use serde::{Deserialize, Serialize};

#[derive(Clone, Debug, Serialize, Deserialize, PartialEq, Eq, Hash)]
pub enum Pre {
    /// fixed segment layout; a job executes runs of increasing segment index, each no longer
    /// than its segment (segments may be skipped), total in [1, C]
    Fixed(Vec<u64>),
    /// floating non-preemptive regions of length at most nps
    Floating(u64),
}

#[derive(Clone, Copy, Debug, Serialize, Deserialize, PartialEq, Eq, Hash)]
pub enum Policy {
    /// index order = priority order (0 highest)
    FP,
    EDF,
    FIFO,
}

#[derive(Clone, Debug, Serialize, Deserialize, PartialEq, Eq, Hash)]
pub struct UTask {
    pub arr: ArrSpec,
    pub cost: u64,
    pub pre: Pre,
    pub deadline: u64,
}

#[derive(Clone, Debug, Serialize, Deserialize, PartialEq, Eq, Hash)]
pub struct UniSpec {
    pub policy: Policy,
    pub tasks: Vec<UTask>,
}

pub struct MTask {
    pub aut: Aut,
    pub cost: u8,
    pub pre: Pre,
    pub deadline: u16,
    pub cap: u8,
    pub is_lp: bool,
    pub track_age: bool,
    pub bound: Option<u16>,
}

#[derive(Clone, Debug, Hash, PartialEq, Eq)]
pub struct TState {
    pub arr: AState,
    /// pending jobs, oldest first (ages; all zero for tasks whose age is irrelevant)
    pub ages: Vec<u16>,
    /// next segment index of the head job
    pub k: u8,
    /// executed units of the head job
    pub tot: u8,
}

#[derive(Clone, Debug, Hash, PartialEq, Eq)]
pub struct State {
    pub ts: Vec<TState>,
    /// task inside a non-preemptive run: (task, segment index, executed in the run)
    pub run: Option<(u8, u8, u8)>,
}

pub struct Model {
    pub tasks: Vec<MTask>,
    pub policy: Policy,
}

pub struct ModelOpts {
    /// model `Periodic` as the strictly periodic automaton (all phases); otherwise as the
    /// sporadic automaton with zero jitter (superset of behaviours, same curve)
    pub strict_periodic: bool,
    pub cap_hep: u8,
    pub cap_lp: u8,
}

impl Default for ModelOpts {
    fn default() -> Self {
        ModelOpts {
            strict_periodic: false,
            cap_hep: 8,
            cap_lp: 2,
        }
    }
}

impl Model {
    /// `bounds[k]` = bound to check for task k; `tua` = the FP task under analysis (tasks with a
    /// larger index are lower-priority: they only matter through blocking).
    pub fn new(spec: &UniSpec, bounds: &[Option<u64>], tua: Option<usize>, o: &ModelOpts) -> Model {
        assert!(spec.tasks.len() <= MAXT);
        let tasks = spec
            .tasks
            .iter()
            .enumerate()
            .map(|(k, t)| {
                let is_lp = spec.policy == Policy::FP && tua.map(|i| k > i).unwrap_or(false);
                let aut = match (&t.arr, o.strict_periodic) {
                    (ArrSpec::Periodic { t }, false) => Aut::Sporadic { t: *t as i16, j: 0 },
                    (a, _) => Aut::of(a).expect("arrival spec without process semantics"),
                };
                MTask {
                    aut,
                    cost: t.cost as u8,
                    pre: t.pre.clone(),
                    deadline: t.deadline as u16,
                    cap: if is_lp {
                        // A strictly periodic lower-priority task cannot release "less": its
                        // backlog grows by one per period while higher-priority work runs.  Give
                        // it room for the whole busy window of the task under analysis, so the
                        // worst-case scenario (which starts near an initial state) is not pruned.
                        match (&t.arr, o.strict_periodic, tua.and_then(|i| bounds[i])) {
                            (ArrSpec::Periodic { t: per }, true, Some(r)) => {
                                let horizon = r + t.cost + 2;
                                ((horizon / *per + 2).min(60) as u8).max(o.cap_lp)
                            }
                            _ => o.cap_lp,
                        }
                    } else {
                        o.cap_hep
                    },
                    is_lp,
                    track_age: spec.policy != Policy::FP || Some(k) == tua,
                    bound: bounds[k].map(|b| b.min(u16::MAX as u64) as u16),
                }
            })
            .collect();
        Model {
            tasks,
            policy: spec.policy,
        }
    }

    fn candidates(&self, s: &State) -> Vec<usize> {
        let ready: Vec<usize> = (0..self.tasks.len())
            .filter(|i| !s.ts[*i].ages.is_empty())
            .collect();
        if ready.is_empty() {
            return ready;
        }
        match self.policy {
            Policy::FP => vec![ready[0]],
            Policy::EDF => {
                let key = |i: usize| self.tasks[i].deadline as i32 - s.ts[i].ages[0] as i32;
                let m = ready.iter().map(|i| key(*i)).min().unwrap();
                ready.into_iter().filter(|i| key(*i) == m).collect()
            }
            Policy::FIFO => {
                let m = ready.iter().map(|i| s.ts[*i].ages[0]).max().unwrap();
                ready
                    .into_iter()
                    .filter(|i| s.ts[*i].ages[0] == m)
                    .collect()
            }
        }
    }

    fn advance_time(&self, n: &mut State) {
        for i in 0..self.tasks.len() {
            self.tasks[i].aut.tick(&mut n.ts[i].arr);
            if self.tasks[i].track_age {
                for x in n.ts[i].ages.iter_mut() {
                    *x += 1;
                }
            }
        }
    }

    /// all release combinations at the current instant
    fn release_choices(&self, s: &State, caps: &mut Caps) -> Vec<(State, [u8; MAXT])> {
        let mut cur = vec![(s.clone(), [0u8; MAXT])];
        let mut ch = vec![];
        for i in 0..self.tasks.len() {
            let mut next = vec![];
            for (st, rel) in cur {
                ch.clear();
                self.tasks[i]
                    .aut
                    .instant_choices(&st.ts[i].arr, &mut ch, &mut caps.burst);
                for (a, k) in ch.drain(..) {
                    if st.ts[i].ages.len() + k as usize > self.tasks[i].cap as usize {
                        // behaviours with a longer backlog are not explored
                        if self.tasks[i].is_lp {
                            caps.lp += 1;
                        } else {
                            caps.hep += 1;
                        }
                        continue;
                    }
                    let mut st2 = st.clone();
                    st2.ts[i].arr = a;
                    for _ in 0..k {
                        st2.ts[i].ages.push(0);
                    }
                    let mut r2 = rel;
                    r2[i] = k;
                    next.push((st2, r2));
                }
            }
            cur = next;
        }
        cur
    }
}

impl Sys for Model {
    type S = State;

    fn inits(&self) -> Vec<State> {
        let mut acc: Vec<Vec<TState>> = vec![vec![]];
        for t in &self.tasks {
            let mut nx = vec![];
            for a in &acc {
                for i in t.aut.inits() {
                    let mut v = a.clone();
                    v.push(TState {
                        arr: i,
                        ages: vec![],
                        k: 0,
                        tot: 0,
                    });
                    nx.push(v);
                }
            }
            acc = nx;
        }
        acc.into_iter().map(|ts| State { ts, run: None }).collect()
    }

    fn ntasks(&self) -> usize {
        self.tasks.len()
    }
    fn bound(&self, task: usize) -> Option<u16> {
        self.tasks[task].bound
    }
    fn oldest_age(&self, s: &State, task: usize) -> Option<u16> {
        if self.tasks[task].track_age {
            s.ts[task].ages.first().copied()
        } else {
            None
        }
    }

    /// successors: releases, then the scheduling decision and one tick of execution
    fn succ(&self, s: &State, out: &mut Vec<(State, Tick)>, caps: &mut Caps) {
        for (st, rel) in self.release_choices(s, caps) {
            // who runs?  (task, segment, executed in the run before this tick)
            let mut runs: Vec<(usize, u8, u8)> = vec![];
            if let Some((ti, seg, e)) = st.run {
                runs.push((ti as usize, seg, e));
            } else {
                for c in self.candidates(&st) {
                    match &self.tasks[c].pre {
                        Pre::Fixed(segs) => {
                            // earlier segments may have had length zero
                            for seg in st.ts[c].k as usize..segs.len() {
                                runs.push((c, seg as u8, 0));
                            }
                        }
                        Pre::Floating(_) => runs.push((c, 0, 0)),
                    }
                }
            }
            if runs.is_empty() {
                let mut n = st.clone();
                self.advance_time(&mut n);
                out.push((
                    n,
                    Tick {
                        rel,
                        supplied: true,
                        ran: None,
                        seg: 0,
                        end: End::Idle,
                        resp: 0,
                    },
                ));
                continue;
            }
            for (ti, seg, e) in runs {
                let t = &self.tasks[ti];
                let e2 = e + 1;
                let tot2 = st.ts[ti].tot + 1;
                let (seg_max, is_last_seg) = match &t.pre {
                    Pre::Fixed(segs) => (segs[seg as usize] as u8, seg as usize + 1 == segs.len()),
                    Pre::Floating(nps) => (*nps as u8, false),
                };
                let lab = |end: End, resp: u16| Tick {
                    rel,
                    supplied: true,
                    ran: Some(ti as u8),
                    seg,
                    end,
                    resp,
                };
                // A: continue the run
                if e2 < seg_max && tot2 < t.cost {
                    let mut n = st.clone();
                    n.ts[ti].tot = tot2;
                    n.run = Some((ti as u8, seg, e2));
                    self.advance_time(&mut n);
                    out.push((n, lab(End::Continue, 0)));
                }
                // B: end the run at a preemption point, the job continues later
                if tot2 < t.cost && !is_last_seg {
                    let mut n = st.clone();
                    n.ts[ti].tot = tot2;
                    n.ts[ti].k = match &t.pre {
                        Pre::Fixed(_) => seg + 1,
                        Pre::Floating(_) => 0,
                    };
                    n.run = None;
                    self.advance_time(&mut n);
                    out.push((n, lab(End::EndRun, 0)));
                }
                // C: the job completes
                {
                    let mut n = st.clone();
                    let age = n.ts[ti].ages.remove(0);
                    n.ts[ti].tot = 0;
                    n.ts[ti].k = 0;
                    n.run = None;
                    self.advance_time(&mut n);
                    let resp = if t.track_age { age + 1 } else { 0 };
                    out.push((n, lab(End::Complete, resp)));
                }
            }
        }
    }
}
