//! Serialisable descriptions of every input ("Case" language) and their translation
//! into *real* library objects.  Replay files are serialised specs.

use response_time_analysis::arrival::{
    self, ArrivalBound, ArrivalCurvePrefix, Curve, ExtrapolatingCurve, Never, Periodic, Propagated,
    Sporadic,
};
use response_time_analysis::demand::RBF;
use response_time_analysis::supply::{self, SupplyBound};
use response_time_analysis::time::{Duration, Service};
use response_time_analysis::wcet::{self, JobCostModel};
use serde::{Deserialize, Serialize};
use std::rc::Rc;

pub fn d(x: u64) -> Duration {
    Duration::from(x)
}
pub fn s(x: u64) -> Service {
    Service::from(x)
}
pub fn du(x: Duration) -> u64 {
    u64::from(x)
}
pub fn su(x: Service) -> u64 {
    u64::from(x)
}

/// Arrival model description.
#[derive(Clone, Debug, Serialize, Deserialize, PartialEq, Eq, Hash, PartialOrd, Ord)]
pub enum ArrSpec {
    Never,
    Periodic { t: u64 },
    Sporadic { t: u64, j: u64 },
    /// `arrival::Curve::new(dmin)`
    Curve { dmin: Vec<u64> },
    /// `ExtrapolatingCurve::new(Curve::new(dmin))`
    ExtCurve { dmin: Vec<u64> },
    /// `ArrivalCurvePrefix::new(horizon, steps)`
    Prefix { horizon: u64, steps: Vec<(u64, usize)> },
    /// `inner.clone_with_jitter(j)`
    Jitter { inner: Box<ArrSpec>, j: u64 },
    /// `Propagated::with_jitter(&inner, j)`
    Propagated { inner: Box<ArrSpec>, j: u64 },
    /// `Vec<Box<dyn ArrivalBound>>`
    Sum(Vec<ArrSpec>),
    /// `arrival::sum_of(a, b)`
    SumOf(Box<ArrSpec>, Box<ArrSpec>),
    /// the components queried through the *slice* implementation `impl ArrivalBound for [T]`
    Slice(Vec<ArrSpec>),
    /// `Curve::from_arrival_bound(&inner, n)`
    CurveFromBound { inner: Box<ArrSpec>, njobs: usize },
    /// `Curve::from_arrival_bound_until(&inner, h)`
    CurveFromBoundUntil { inner: Box<ArrSpec>, horizon: u64 },
    /// `ArrivalCurvePrefix::from_arrival_bound_until(&inner, h)`
    PrefixFromBoundUntil { inner: Box<ArrSpec>, horizon: u64 },
    /// `Curve::from(&ArrivalCurvePrefix)` of inner (which must build a Prefix / PrefixFromBoundUntil)
    CurveFromPrefix { inner: Box<ArrSpec> },
    /// a user-defined arrival model: only `number_arrivals` is forwarded, so `steps_iter` is the
    /// trait's default implementation (`brute_force_steps_iter`)
    OpaqueDefault { inner: Box<ArrSpec> },
    /// `Curve::from(Periodic)` / `Curve::from(Sporadic)` / `Sporadic::from(Periodic)`
    CurveFromPeriodic { t: u64 },
    CurveFromSporadic { t: u64, j: u64 },
    SporadicFromPeriodic { t: u64 },
    /// `Curve::from_trace(times, prefix_jobs)`
    CurveFromTrace { times: Vec<u64>, prefix_jobs: usize },
    /// `Curve::new(dmin)` then `extrapolate(h)`
    CurveExtrapolated { dmin: Vec<u64>, horizon: u64 },
    /// `dmin.into_iter().collect::<Curve>()` (FromIterator: monotone closure)
    CurveCollected { dmin: Vec<u64> },
}

pub type DynArr = Rc<dyn ArrivalBound>;

/// Owns the components and answers every query through `<[T] as ArrivalBound>`.
pub struct SliceHolder(pub Vec<Box<dyn ArrivalBound>>);
impl ArrivalBound for SliceHolder {
    fn number_arrivals(&self, delta: Duration) -> usize {
        <[Box<dyn ArrivalBound>] as ArrivalBound>::number_arrivals(&self.0[..], delta)
    }
    fn steps_iter<'a>(&'a self) -> Box<dyn Iterator<Item = Duration> + 'a> {
        <[Box<dyn ArrivalBound>] as ArrivalBound>::steps_iter(&self.0[..])
    }
    fn clone_with_jitter(&self, jitter: Duration) -> Box<dyn ArrivalBound> {
        <[Box<dyn ArrivalBound>] as ArrivalBound>::clone_with_jitter(&self.0[..], jitter)
    }
}
/// forwards `number_arrivals` only (default `steps_iter`)
#[derive(Clone)]
pub struct OpaqueArr(pub Rc<dyn ArrivalBound>);
impl ArrivalBound for OpaqueArr {
    fn number_arrivals(&self, delta: Duration) -> usize {
        self.0.number_arrivals(delta)
    }
    fn clone_with_jitter(&self, jitter: Duration) -> Box<dyn ArrivalBound> {
        Box::new(response_time_analysis::arrival::Propagated::with_jitter(self, jitter))
    }
}
pub type DynCost = Rc<dyn JobCostModel>;
pub type DynRbf = RBF<DynArr, DynCost>;

fn build_prefix(spec: &ArrSpec) -> ArrivalCurvePrefix {
    match spec {
        ArrSpec::Prefix { horizon, steps } => ArrivalCurvePrefix::new(
            d(*horizon),
            steps.iter().map(|(a, n)| (d(*a), *n)).collect(),
        ),
        ArrSpec::PrefixFromBoundUntil { inner, horizon } => {
            ArrivalCurvePrefix::from_arrival_bound_until(&inner.build(), d(*horizon))
        }
        _ => panic!("spec does not denote an ArrivalCurvePrefix"),
    }
}

impl ArrSpec {
    pub fn curve(dmin: &[u64]) -> Curve {
        Curve::new(dmin.iter().map(|x| d(*x)).collect())
    }

    /// Build the real library object.
    pub fn build(&self) -> DynArr {
        match self {
            ArrSpec::Never => Rc::new(Never {}),
            ArrSpec::Periodic { t } => Rc::new(Periodic::new(d(*t))),
            ArrSpec::Sporadic { t, j } => Rc::new(Sporadic::new(d(*t), d(*j))),
            ArrSpec::Curve { dmin } => Rc::new(Self::curve(dmin)),
            ArrSpec::ExtCurve { dmin } => Rc::new(ExtrapolatingCurve::new(Self::curve(dmin))),
            ArrSpec::Prefix { .. } | ArrSpec::PrefixFromBoundUntil { .. } => {
                Rc::new(build_prefix(self))
            }
            ArrSpec::Jitter { inner, j } => {
                let b: Box<dyn ArrivalBound> = inner.build().clone_with_jitter(d(*j));
                Rc::from(b)
            }
            ArrSpec::Propagated { inner, j } => {
                // use the concrete inner type where there is one, so the generic
                // instantiations the user would write are exercised
                match &**inner {
                    ArrSpec::Never => Rc::new(Propagated::with_jitter(&Never {}, d(*j))),
                    ArrSpec::Periodic { t } => {
                        Rc::new(Propagated::with_jitter(&Periodic::new(d(*t)), d(*j)))
                    }
                    ArrSpec::Sporadic { t, j: j0 } => {
                        Rc::new(Propagated::with_jitter(&Sporadic::new(d(*t), d(*j0)), d(*j)))
                    }
                    ArrSpec::Curve { dmin } => {
                        Rc::new(Propagated::with_jitter(&Self::curve(dmin), d(*j)))
                    }
                    ArrSpec::ExtCurve { dmin } => Rc::new(Propagated::with_jitter(
                        &ExtrapolatingCurve::new(Self::curve(dmin)),
                        d(*j),
                    )),
                    ArrSpec::Prefix { .. } | ArrSpec::PrefixFromBoundUntil { .. } => {
                        Rc::new(Propagated::with_jitter(&build_prefix(inner), d(*j)))
                    }
                    other => Rc::new(Propagated::with_jitter(&other.build(), d(*j))),
                }
            }
            ArrSpec::Sum(v) => {
                let parts: Vec<Box<dyn ArrivalBound>> = v
                    .iter()
                    .map(|x| Box::new(x.build()) as Box<dyn ArrivalBound>)
                    .collect();
                Rc::new(parts)
            }
            ArrSpec::SumOf(a, b) => Rc::new(arrival::sum_of(a.build(), b.build())),
            ArrSpec::Slice(v) => Rc::new(SliceHolder(
                v.iter()
                    .map(|x| Box::new(x.build()) as Box<dyn ArrivalBound>)
                    .collect(),
            )),
            ArrSpec::CurveFromBound { inner, njobs } => {
                Rc::new(Curve::from_arrival_bound(&inner.build(), *njobs))
            }
            ArrSpec::CurveFromBoundUntil { inner, horizon } => {
                Rc::new(Curve::from_arrival_bound_until(&inner.build(), d(*horizon)))
            }
            ArrSpec::CurveFromPrefix { inner } => Rc::new(Curve::from(&build_prefix(inner))),
            ArrSpec::OpaqueDefault { inner } => Rc::new(OpaqueArr(inner.build())),
            ArrSpec::CurveFromPeriodic { t } => Rc::new(Curve::from(Periodic::new(d(*t)))),
            ArrSpec::CurveFromSporadic { t, j } => {
                Rc::new(Curve::from(Sporadic::new(d(*t), d(*j))))
            }
            ArrSpec::SporadicFromPeriodic { t } => Rc::new(Sporadic::from(Periodic::new(d(*t)))),
            ArrSpec::CurveFromTrace { times, prefix_jobs } => Rc::new(Curve::from_trace(
                times
                    .iter()
                    .map(|x| response_time_analysis::time::Offset::from(*x)),
                *prefix_jobs,
            )),
            ArrSpec::CurveExtrapolated { dmin, horizon } => {
                let mut c = Self::curve(dmin);
                c.extrapolate(d(*horizon));
                Rc::new(c)
            }
            ArrSpec::CurveCollected { dmin } => {
                let c: Curve = dmin.iter().map(|x| d(*x)).collect();
                Rc::new(c)
            }
        }
    }

    pub fn eta(&self, delta: u64) -> usize {
        self.build().number_arrivals(d(delta))
    }
}

/// Job cost model description.
#[derive(Clone, Debug, Serialize, Deserialize, PartialEq, Eq, Hash, PartialOrd, Ord)]
pub enum CostSpec {
    Scalar(u64),
    Multiframe(Vec<u64>),
    Curve(Vec<u64>),
    ExtCurve(Vec<u64>),
    CurveFromTrace { costs: Vec<u64>, max_n: usize },
}

impl CostSpec {
    pub fn build(&self) -> DynCost {
        match self {
            CostSpec::Scalar(c) => Rc::new(wcet::Scalar::new(s(*c))),
            CostSpec::Multiframe(v) => {
                Rc::new(wcet::Multiframe::new(v.iter().map(|x| s(*x)).collect()))
            }
            CostSpec::Curve(v) => Rc::new(wcet::Curve::new(v.iter().map(|x| s(*x)).collect())),
            CostSpec::ExtCurve(v) => Rc::new(wcet::ExtrapolatingCurve::new(wcet::Curve::new(
                v.iter().map(|x| s(*x)).collect(),
            ))),
            CostSpec::CurveFromTrace { costs, max_n } => {
                Rc::new(wcet::Curve::from_trace(costs.iter().map(|x| s(*x)), *max_n))
            }
        }
    }
    pub fn scalar(&self) -> u64 {
        match self {
            CostSpec::Scalar(c) => *c,
            _ => panic!("scalar cost expected"),
        }
    }
    /// largest single-job cost (WCET)
    pub fn wcet(&self) -> u64 {
        su(self.build().cost_of_jobs(1))
    }
}

/// Supply description.
#[derive(Clone, Debug, Serialize, Deserialize, PartialEq, Eq, Hash, PartialOrd, Ord)]
pub enum SupplySpec {
    Dedicated,
    Periodic { q: u64, p: u64 },
    Constrained { q: u64, dl: u64, p: u64 },
    /// user-defined supply: only `provided_service` is forwarded, so the
    /// trait's *default* `service_time` is exercised
    Opaque(Box<SupplySpec>),
}

pub struct OpaqueSupply(pub Rc<dyn SupplyBound>);
impl SupplyBound for OpaqueSupply {
    fn provided_service(&self, delta: Duration) -> Service {
        self.0.provided_service(delta)
    }
}

impl SupplySpec {
    pub fn build(&self) -> Rc<dyn SupplyBound> {
        match self {
            SupplySpec::Dedicated => Rc::new(supply::Dedicated::new()),
            SupplySpec::Periodic { q, p } => Rc::new(supply::Periodic::new(s(*q), d(*p))),
            SupplySpec::Constrained { q, dl, p } => {
                Rc::new(supply::Constrained::new(s(*q), d(*dl), d(*p)))
            }
            SupplySpec::Opaque(inner) => Rc::new(OpaqueSupply(inner.build())),
        }
    }
    /// (Q, D, P) of the reservation; Dedicated = (1,1,1)
    pub fn qdp(&self) -> (u64, u64, u64) {
        match self {
            SupplySpec::Dedicated => (1, 1, 1),
            SupplySpec::Periodic { q, p } => (*q, *p, *p),
            SupplySpec::Constrained { q, dl, p } => (*q, *dl, *p),
            SupplySpec::Opaque(i) => i.qdp(),
        }
    }
}

pub fn rbf(arr: &ArrSpec, cost: &CostSpec) -> DynRbf {
    RBF::new(arr.build(), cost.build())
}

/// All compositions of `c` into positive parts (segment layouts).
pub fn compositions(c: u64) -> Vec<Vec<u64>> {
    if c == 0 {
        return vec![vec![]];
    }
    let mut out = vec![];
    for first in 1..=c {
        for mut rest in compositions(c - first) {
            let mut v = vec![first];
            v.append(&mut rest);
            out.push(v);
        }
    }
    out
}

/// All non-decreasing vectors of length 1..=maxlen over lo..=hi with last > 0.
pub fn nondecreasing_prefixes(maxlen: usize, hi: u64) -> Vec<Vec<u64>> {
    fn rec(cur: &mut Vec<u64>, maxlen: usize, hi: u64, out: &mut Vec<Vec<u64>>) {
        if !cur.is_empty() && *cur.last().unwrap() > 0 {
            out.push(cur.clone());
        }
        if cur.len() == maxlen {
            return;
        }
        let lo = cur.last().copied().unwrap_or(0);
        for v in lo..=hi {
            cur.push(v);
            rec(cur, maxlen, hi, out);
            cur.pop();
        }
    }
    let mut out = vec![];
    rec(&mut vec![], maxlen, hi, &mut out);
    out
}

/// Is a delta-min prefix super-additive in the sense needed by extrapolation
/// (dmin(a+b-1) >= dmin(a) + dmin(b) in job-count terms)?
/// With the storage convention `v[i]` = min distance of `i+2` jobs: for all i,j with i+j+1 < len:
/// v[i+j+1] >= v[i] + v[j].
pub fn is_superadditive(v: &[u64]) -> bool {
    for i in 0..v.len() {
        for j in 0..v.len() {
            if i + j + 1 < v.len() && v[i + j + 1] < v[i] + v[j] {
                return false;
            }
        }
    }
    true
}
