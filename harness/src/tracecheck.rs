//! Independent first-principles trace validator (DESIGN §7.1).  Shares no code with `sched.rs` /
//! `executor.rs`.  It binds model traces to the implementation: releases per window are checked
//! against the *library's own* `number_arrivals` of the very object handed to the analysis.

use crate::engine::{End, Tick};
use crate::executor::ExecSpec;
use crate::sched::{Policy, Pre, UniSpec};
use crate::spec::d;
use std::collections::VecDeque;

#[derive(Debug, Default, Clone)]
pub struct Report {
    /// largest response time of a completed job per task
    pub max_resp: Vec<u64>,
    /// age of the oldest job still pending at the end of the trace (None: nothing pending)
    pub pending_age: Vec<Option<u64>>,
    /// releases respect the library's number_arrivals in every window
    pub eta_ok: bool,
    /// violations of the platform rules (must be empty, otherwise the *model* is wrong)
    pub problems: Vec<String>,
}

impl Report {
    /// largest response time (completed or still pending) observed for `task`
    pub fn worst(&self, task: usize) -> u64 {
        self.max_resp[task].max(self.pending_age[task].unwrap_or(0))
    }
    /// does the trace show a response time larger than `bound` for `task`?  (a completed job
    /// with a larger response time, or a job still pending `bound` ticks after its release)
    pub fn exceeds(&self, task: usize, bound: u64) -> bool {
        self.max_resp[task] > bound || self.pending_age[task].map(|a| a >= bound).unwrap_or(false)
    }
}

fn eta_compliant(arr: &crate::spec::ArrSpec, rel_times: &[u64]) -> bool {
    let ab = arr.build();
    for i in 0..rel_times.len() {
        for j in i..rel_times.len() {
            let window = rel_times[j] - rel_times[i] + 1;
            if j - i + 1 > ab.number_arrivals(d(window)) {
                return false;
            }
        }
    }
    true
}

struct Job {
    release: u64,
    executed: u64,
    cur_run: u64,
    last_seg: Option<u8>,
    cur_seg: Option<u8>,
}

pub fn check_uni(spec: &UniSpec, ticks: &[Tick]) -> Report {
    let n = spec.tasks.len();
    let mut rep = Report {
        max_resp: vec![0; n],
        pending_age: vec![None; n],
        eta_ok: true,
        problems: vec![],
    };
    let mut queues: Vec<VecDeque<Job>> = (0..n).map(|_| VecDeque::new()).collect();
    let mut rel_times: Vec<Vec<u64>> = vec![vec![]; n];
    let mut in_run: Option<usize> = None;
    for (t, tk) in ticks.iter().enumerate() {
        let t = t as u64;
        for i in 0..n {
            for _ in 0..tk.rel[i] {
                queues[i].push_back(Job {
                    release: t,
                    executed: 0,
                    cur_run: 0,
                    last_seg: None,
                    cur_seg: None,
                });
                rel_times[i].push(t);
            }
        }
        if !tk.supplied {
            rep.problems
                .push(format!("t={t}: dedicated processor did not supply"));
        }
        let ran = tk.ran.map(|x| x as usize);
        // who is allowed to run
        if let Some(r) = in_run {
            if ran != Some(r) {
                rep.problems
                    .push(format!("t={t}: non-preemptive run of task {r} interrupted"));
            }
        } else {
            let pending: Vec<usize> = (0..n).filter(|i| !queues[*i].is_empty()).collect();
            match ran {
                None => {
                    if !pending.is_empty() {
                        rep.problems
                            .push(format!("t={t}: idle although jobs are pending"));
                    }
                }
                Some(r) => {
                    if queues[r].is_empty() {
                        rep.problems
                            .push(format!("t={t}: task {r} runs without a pending job"));
                        break;
                    }
                    let ok = match spec.policy {
                        Policy::FP => pending.iter().all(|i| *i >= r),
                        Policy::EDF => {
                            let dl = |i: usize| queues[i][0].release + spec.tasks[i].deadline;
                            pending.iter().all(|i| dl(*i) >= dl(r))
                        }
                        Policy::FIFO => pending
                            .iter()
                            .all(|i| queues[*i][0].release >= queues[r][0].release),
                    };
                    if !ok {
                        rep.problems.push(format!(
                            "t={t}: task {r} chosen against the {:?} policy",
                            spec.policy
                        ));
                    }
                }
            }
        }
        if let Some(r) = ran {
            if queues[r].is_empty() {
                break;
            }
            let task = &spec.tasks[r];
            let job = queues[r].front_mut().unwrap();
            if job.cur_run == 0 {
                // a new run starts: segment index must increase
                if let Pre::Fixed(segs) = &task.pre {
                    if (tk.seg as usize) >= segs.len()
                        || job.last_seg.map(|l| tk.seg <= l).unwrap_or(false)
                    {
                        rep.problems
                            .push(format!("t={t}: task {r} illegal segment index {}", tk.seg));
                    }
                }
                job.cur_seg = Some(tk.seg);
            } else if job.cur_seg != Some(tk.seg) {
                rep.problems
                    .push(format!("t={t}: task {r} changes segment inside a run"));
            }
            job.executed += 1;
            job.cur_run += 1;
            let seg_max = match &task.pre {
                Pre::Fixed(segs) => segs.get(tk.seg as usize).copied().unwrap_or(0),
                Pre::Floating(nps) => *nps,
            };
            if job.cur_run > seg_max {
                rep.problems.push(format!(
                    "t={t}: task {r} run longer than its segment ({} > {seg_max})",
                    job.cur_run
                ));
            }
            if job.executed > task.cost {
                rep.problems
                    .push(format!("t={t}: task {r} executes more than its WCET"));
            }
            match tk.end {
                End::Continue => {
                    if job.cur_run >= seg_max || job.executed >= task.cost {
                        rep.problems.push(format!(
                            "t={t}: task {r} continues past segment end / WCET"
                        ));
                    }
                    in_run = Some(r);
                }
                End::EndRun => {
                    if let Pre::Fixed(segs) = &task.pre {
                        if tk.seg as usize + 1 == segs.len() {
                            rep.problems.push(format!(
                                "t={t}: task {r} has a preemption point after its last segment"
                            ));
                        }
                    }
                    if job.executed >= task.cost {
                        rep.problems
                            .push(format!("t={t}: task {r} exhausted WCET but does not complete"));
                    }
                    job.last_seg = job.cur_seg;
                    job.cur_run = 0;
                    in_run = None;
                }
                End::Complete => {
                    let resp = t + 1 - job.release;
                    if tk.resp != 0 && tk.resp as u64 != resp {
                        rep.problems.push(format!(
                            "t={t}: model claims response time {} but it is {resp}",
                            tk.resp
                        ));
                    }
                    rep.max_resp[r] = rep.max_resp[r].max(resp);
                    queues[r].pop_front();
                    in_run = None;
                }
                End::Idle => rep.problems.push(format!("t={t}: ran with End::Idle")),
            }
        } else if tk.end != End::Idle {
            rep.problems
                .push(format!("t={t}: nobody ran but end = {:?}", tk.end));
        }
    }
    let tend = ticks.len() as u64;
    for i in 0..n {
        if let Some(j) = queues[i].front() {
            rep.pending_age[i] = Some(tend - j.release);
        }
        if !eta_compliant(&spec.tasks[i].arr, &rel_times[i]) {
            rep.eta_ok = false;
        }
    }
    rep
}

pub fn check_exec(spec: &ExecSpec, init_res: (u8, u8), ticks: &[Tick]) -> Report {
    let n = spec.cbs.len();
    let mut rep = Report {
        max_resp: vec![0; n],
        pending_age: vec![None; n],
        eta_ok: true,
        problems: vec![],
    };
    // instances: source release time
    let mut queues: Vec<Vec<u64>> = vec![vec![]; n];
    let mut rel_times: Vec<Vec<u64>> = vec![vec![]; n];
    let mut ready: Vec<usize> = vec![];
    let mut running: Option<(usize, u64)> = None;
    let mut supplied_at: Vec<bool> = vec![];
    // chain successors triggered by a completion at the end of tick t arrive at t+1
    let mut triggered: Vec<(usize, u64)> = vec![];
    for (t, tk) in ticks.iter().enumerate() {
        let t = t as u64;
        for (cb, src) in triggered.drain(..) {
            queues[cb].push(src);
            queues[cb].sort();
        }
        for i in 0..n {
            if tk.rel[i] > 0 && spec.cbs[i].arr.is_none() {
                rep.problems
                    .push(format!("t={t}: external release of triggered callback {i}"));
            }
            for _ in 0..tk.rel[i] {
                queues[i].push(t);
                rel_times[i].push(t);
            }
        }
        supplied_at.push(tk.supplied);
        let ran = tk.ran.map(|x| x as usize);
        if !tk.supplied {
            if ran.is_some() {
                rep.problems
                    .push(format!("t={t}: execution without supply"));
            }
            continue;
        }
        // the executor acts
        let expect: Vec<usize> = if let Some((c, _)) = running {
            vec![c]
        } else if spec.fifo {
            let oldest = (0..n).filter_map(|i| queues[i].first().copied()).min();
            match oldest {
                Some(o) => (0..n)
                    .filter(|i| queues[*i].first() == Some(&o))
                    .collect(),
                None => vec![],
            }
        } else {
            let timer = (0..n).find(|i| spec.cbs[*i].timer && !queues[*i].is_empty());
            match timer {
                Some(i) => vec![i],
                None => {
                    if ready.is_empty() {
                        ready = (0..n)
                            .filter(|i| !spec.cbs[*i].timer && !queues[*i].is_empty())
                            .collect();
                    }
                    if ready.is_empty() {
                        vec![]
                    } else {
                        vec![ready.remove(0)]
                    }
                }
            }
        };
        match ran {
            None => {
                if !expect.is_empty() {
                    rep.problems.push(format!(
                        "t={t}: executor idles although callback {:?} is eligible",
                        expect
                    ));
                }
            }
            Some(r) => {
                if !expect.contains(&r) {
                    rep.problems.push(format!(
                        "t={t}: callback {r} runs but the executor must pick {:?}",
                        expect
                    ));
                    break;
                }
                let e = running.map(|(_, e)| e).unwrap_or(0) + 1;
                if e > spec.cbs[r].cost {
                    rep.problems
                        .push(format!("t={t}: callback {r} exceeds its WCET"));
                }
                match tk.end {
                    End::Continue => {
                        if e >= spec.cbs[r].cost {
                            rep.problems
                                .push(format!("t={t}: callback {r} continues past its WCET"));
                        }
                        running = Some((r, e));
                    }
                    End::Complete => {
                        let src = queues[r].remove(0);
                        let resp = t + 1 - src;
                        if tk.resp as u64 != resp {
                            rep.problems.push(format!(
                                "t={t}: model claims response time {} but it is {resp}",
                                tk.resp
                            ));
                        }
                        rep.max_resp[r] = rep.max_resp[r].max(resp);
                        if let Some(nx) = spec.cbs[r].next {
                            triggered.push((nx, src));
                        }
                        running = None;
                    }
                    _ => rep
                        .problems
                        .push(format!("t={t}: illegal end {:?} for a callback", tk.end)),
                }
            }
        }
    }
    let tend = ticks.len() as u64;
    for (cb, src) in triggered.drain(..) {
        queues[cb].push(src);
        queues[cb].sort();
    }
    for i in 0..n {
        if let Some(src) = queues[i].first() {
            rep.pending_age[i] = Some(tend - src);
        }
        if let Some(a) = &spec.cbs[i].arr {
            if !eta_compliant(a, &rel_times[i]) {
                rep.eta_ok = false;
            }
        }
    }
    // reservation contract, window formulation: in every period exactly Q supplied ticks, all
    // within the first D ticks of the period
    let (q, dl, p) = spec.supply.qdp();
    if q != p {
        let (ph0, left0) = (init_res.0 as u64, init_res.1 as u64);
        // period k covers absolute positions [k*p - ph0, (k+1)*p - ph0)
        let mut pos = 0i64 - ph0 as i64;
        let mut first = true;
        while pos < supplied_at.len() as i64 {
            let lo = pos.max(0) as usize;
            let hi = ((pos + p as i64) as usize).min(supplied_at.len());
            let complete = (pos + p as i64) as usize <= supplied_at.len();
            let got = supplied_at[lo..hi].iter().filter(|x| **x).count() as u64;
            let want = if first { left0 } else { q };
            // no supply after the deadline
            for a in lo..hi {
                if supplied_at[a] && (a as i64 - pos) as u64 >= dl {
                    rep.problems
                        .push(format!("t={a}: supply after the reservation deadline"));
                }
            }
            if complete {
                if got != want {
                    rep.problems.push(format!(
                        "period at {pos}: supplied {got} units, contract says {want}"
                    ));
                }
            } else {
                // partial last period: not more than the budget, and the rest must still fit
                let elapsed = (hi as i64 - pos) as u64;
                if got > want || want - got > dl.saturating_sub(elapsed) {
                    rep.problems.push(format!(
                        "partial period at {pos}: supplied {got} of {want}, cannot meet the contract"
                    ));
                }
            }
            first = false;
            pos += p as i64;
        }
    } else if supplied_at.iter().any(|x| !*x) {
        rep.problems
            .push("dedicated processor withheld supply".to_string());
    }
    rep
}
