//! Run context: tier/seed, violation + known-finding bookkeeping, evidence and replay files.

use serde::{Deserialize, Serialize};
use serde_json::{json, Value};
use std::collections::BTreeMap;
use std::path::PathBuf;
use std::time::Instant;

#[derive(Clone, Copy, Debug, PartialEq, Eq)]
pub enum Tier {
    Quick,
    Thorough,
}

#[derive(Clone, Debug, Serialize, Deserialize)]
pub struct Finding {
    pub property: String,
    pub key: String,
    /// "known" (recorded, not repaired: suppresses the alarm for exactly this key) or
    /// "fixed" (repaired in /repo: suppresses nothing)
    pub status: String,
    #[serde(default)]
    pub commit: Option<String>,
    pub what: String,
}

pub fn root() -> PathBuf {
    std::env::var("VERIF_ROOT")
        .map(PathBuf::from)
        .unwrap_or_else(|_| PathBuf::from("/verif"))
}

pub fn load_findings() -> Vec<Finding> {
    let p = root().join("known_findings.json");
    match std::fs::read_to_string(&p) {
        Ok(s) => serde_json::from_str(&s).expect("known_findings.json is malformed"),
        Err(_) => vec![],
    }
}

pub struct Ctx {
    pub id: String,
    pub tier: Tier,
    pub seed: u64,
    start: Instant,
    findings: Vec<Finding>,
    /// unlisted violations: key -> (count, first replay path, first description)
    viol: BTreeMap<String, (u64, String, String)>,
    /// listed (known) findings that were hit: key -> count
    known_hits: BTreeMap<String, u64>,
    replay_files: usize,
    pub notes: Vec<String>,
}

/// exit code used for machinery errors (never a verdict)
pub const EXIT_MACHINERY: i32 = 2;

pub fn machinery_error(msg: &str) -> ! {
    eprintln!("MACHINERY-ERROR: {msg}");
    println!("MACHINERY-ERROR: {msg}");
    std::process::exit(EXIT_MACHINERY);
}

fn fnv(s: &str) -> u64 {
    let mut h: u64 = 0xcbf29ce484222325;
    for b in s.bytes() {
        h ^= b as u64;
        h = h.wrapping_mul(0x100000001b3);
    }
    h
}

impl Ctx {
    pub fn new(id: &str, tier: Tier) -> Ctx {
        let seed = std::env::var("VERIF_SEED")
            .ok()
            .and_then(|s| s.parse::<i64>().ok())
            .map(|x| x as u64)
            .unwrap_or(1);
        Ctx {
            id: id.to_string(),
            tier,
            seed,
            start: Instant::now(),
            findings: load_findings(),
            viol: BTreeMap::new(),
            known_hits: BTreeMap::new(),
            replay_files: 0,
            notes: vec![],
        }
    }

    pub fn quick(&self) -> bool {
        self.tier == Tier::Quick
    }

    /// Deterministic sample selector: true for roughly one in `one_in` items, seed-dependent.
    pub fn pick(&self, item: u64, one_in: u64) -> bool {
        let mut x = item
            .wrapping_mul(0x9E3779B97F4A7C15)
            .wrapping_add(self.seed.wrapping_mul(0xD1B54A32D192ED03));
        x ^= x >> 31;
        x = x.wrapping_mul(0xBF58476D1CE4E5B9);
        x ^= x >> 29;
        x % one_in.max(1) == 0
    }

    /// Number of reported (not known) violations whose key ends in `#does-not-terminate`: checks
    /// whose every watchdog hit costs the full cap (and a leaked spinning thread) stop collecting
    /// further witnesses once a few exist.
    pub fn hangs_reported(&self) -> u64 {
        self.viol.iter().filter(|(k, _)| k.contains("#does-not-terminate")).map(|(_, v)| v.0).sum()
    }

    pub fn is_known(&self, key: &str) -> bool {
        self.findings
            .iter()
            .any(|f| f.property == self.id && f.key == key && f.status == "known")
    }

    /// Report a violation.  `key` names the call site and the symptom (decided by the check from
    /// the shape of the failing case); it is matched against known_findings.json.  `case` is the
    /// replayable artefact.
    pub fn violation(&mut self, key: &str, what: &str, kind: &str, case: Value) {
        if self.is_known(key) {
            *self.known_hits.entry(key.to_string()).or_insert(0) += 1;
            return;
        }
        let e = self
            .viol
            .entry(key.to_string())
            .or_insert((0, String::new(), what.to_string()));
        e.0 += 1;
        // keep the first few artefacts per key
        if e.0 <= 3 && self.replay_files < 40 {
            let body = json!({
                "property": self.id,
                "key": key,
                "kind": kind,
                "what": what,
                "case": case,
            });
            let txt = serde_json::to_string_pretty(&body).unwrap();
            let name = format!("{}-{:016x}.json", self.id, fnv(&txt));
            let dir = root().join("replays");
            let _ = std::fs::create_dir_all(&dir);
            let path = dir.join(&name);
            let _ = std::fs::write(&path, txt);
            self.replay_files += 1;
            if e.1.is_empty() {
                e.1 = path.to_string_lossy().to_string();
            }
            println!(
                "VIOLATION property={} replay={} key={} :: {}",
                self.id,
                path.to_string_lossy(),
                key,
                what
            );
        }
    }

    pub fn n_known(&self) -> u64 {
        self.known_hits.values().sum()
    }

    pub fn n_violations(&self) -> u64 {
        self.viol.values().map(|v| v.0).sum()
    }

    pub fn note(&mut self, s: String) {
        println!("note: {s}");
        self.notes.push(s);
    }

    /// Write the evidence file, print the summary lines and return the exit code.
    pub fn finish(self, level: &str, mut coverage: Value, assumptions: Vec<String>) -> i32 {
        let wall = self.start.elapsed().as_secs_f64();
        let nviol = self.n_violations();
        for (k, n) in &self.known_hits {
            let f = self
                .findings
                .iter()
                .find(|f| f.property == self.id && &f.key == k)
                .unwrap();
            println!(
                "KNOWN-FINDING: property={} {} [{}; {} occurrence(s) in this run]",
                self.id, f.what, k, n
            );
        }
        for (k, (n, path, what)) in &self.viol {
            if *n > 3 {
                println!(
                    "VIOLATION property={} replay={} key={} :: {} ({} occurrences in total)",
                    self.id, path, k, what, n
                );
            }
        }
        if let Value::Object(m) = &mut coverage {
            m.insert(
                "known_findings_hit".into(),
                json!(self
                    .known_hits
                    .iter()
                    .map(|(k, n)| json!({"key": k, "occurrences": n}))
                    .collect::<Vec<_>>()),
            );
            m.insert(
                "violation_keys".into(),
                json!(self
                    .viol
                    .iter()
                    .map(|(k, v)| json!({"key": k, "occurrences": v.0, "replay": v.1}))
                    .collect::<Vec<_>>()),
            );
            if !self.notes.is_empty() {
                m.insert("notes".into(), json!(self.notes));
            }
        }
        let ev = json!({
            "property_id": self.id,
            "tier": if self.tier == Tier::Quick { "quick" } else { "thorough" },
            "seed": self.seed as i64,
            "level": level,
            "coverage": coverage,
            "assumptions": assumptions,
            "wall_s": (wall * 1000.0).round() / 1000.0,
            "violations": nviol as i64,
        });
        let dir = root().join("evidence");
        let _ = std::fs::create_dir_all(&dir);
        let path = dir.join(format!("{}.json", self.id));
        std::fs::write(&path, serde_json::to_string_pretty(&ev).unwrap())
            .unwrap_or_else(|e| machinery_error(&format!("cannot write evidence: {e}")));
        println!(
            "{} {:?}: violations={} known_findings_hit={} wall={:.1}s evidence={}",
            self.id,
            self.tier,
            nviol,
            self.known_hits.len(),
            wall,
            path.to_string_lossy()
        );
        if nviol > 0 {
            1
        } else {
            0
        }
    }
}

/// Run `f` with panics caught; returns Err(message) on panic.
pub fn catch<T>(f: impl FnOnce() -> T) -> Result<T, String> {
    std::panic::catch_unwind(std::panic::AssertUnwindSafe(f)).map_err(|e| {
        if let Some(s) = e.downcast_ref::<&str>() {
            s.to_string()
        } else if let Some(s) = e.downcast_ref::<String>() {
            s.clone()
        } else {
            "panic".to_string()
        }
    })
}

pub fn silence_panics() {
    // VERIF_SHOW_PANICS=1 keeps the default hook (debugging aid)
    if std::env::var("VERIF_SHOW_PANICS").is_err() {
        std::panic::set_hook(Box::new(|_| {}));
    }
}

/// Run `f` on a worker thread with a wall-clock cap.  Err(None) = timed out (the worker is
/// leaked; the process exits through `std::process::exit` anyway), Err(Some(msg)) = panicked.
pub fn with_timeout<T: Send + 'static>(
    secs: f64,
    f: impl FnOnce() -> T + Send + 'static,
) -> Result<T, Option<String>> {
    let (tx, rx) = std::sync::mpsc::channel();
    std::thread::Builder::new()
        .stack_size(64 << 20)
        .spawn(move || {
            let r = catch(f);
            let _ = tx.send(r);
        })
        .expect("spawn");
    match rx.recv_timeout(std::time::Duration::from_secs_f64(secs)) {
        Ok(Ok(v)) => Ok(v),
        Ok(Err(e)) => Err(Some(e)),
        Err(_) => Err(None),
    }
}
