#!/bin/bash
# ./run.sh <ID> <quick|thorough>   run one check (rebuilds the harness against /repo's working tree first)
# ./run.sh replay <file>           replay a violation artefact against the current tree
# ./run.sh setup                   build everything once
set -u
ROOT="$(cd "$(dirname "$0")" && pwd)"
export VERIF_ROOT="$ROOT"
export CARGO_NET_OFFLINE=true
cd "$ROOT/harness" || exit 2
build() {
  # $1 = profile
  if ! cargo build --offline --profile "$1" >"$ROOT/harness/build-$1.log" 2>&1; then
    echo "MACHINERY-ERROR: cargo build ($1) failed; see $ROOT/harness/build-$1.log"
    tail -30 "$ROOT/harness/build-$1.log"
    exit 2
  fi
}
case "${1:-}" in
  setup)
    build release
    build checked
    exit 0 ;;
  replay)
    build release
    # artefacts of C20 are re-run in both build profiles
    case "$(basename "$2")" in C20-*) build checked ;; esac
    exec "$ROOT/harness/target/release/rtamc" replay "$2" ;;
  C20)
    build release
    build checked
    exec "$ROOT/harness/target/release/rtamc" "$1" "${2:-quick}" ;;
  C??)
    build release
    exec "$ROOT/harness/target/release/rtamc" "$1" "${2:-quick}" ;;
  *)
    echo "usage: $0 <C01..C20> <quick|thorough> | replay <file> | setup"; exit 2 ;;
esac
