#!/usr/bin/env python3
"""Collects confirmed seeded changes into /verif/seeded/<ID>-<V>/ (patch.diff, demo.rs, notes.md, meta.json).
Inputs: the sub-agents' deliverables in /tmp/wt/out-<ID>/ and my own confirmation runs in /tmp/seedres/."""
import json, os, re, shutil, sys, glob

NEEDS = {
 "C01A": ("src/fixed_priority/limited_preemptive.rs: run-to-completion threshold loses its epsilon (rtct = wcet - last_np_segment)", "a higher-priority release exactly at the instant the analysed job reaches its last preemption point; last segment > 1"),
 "C01B": ("src/fixed_priority/fully_nonpreemptive.rs: rtct = Service::none() instead of epsilon", "higher-priority jobs released exactly at the would-be start instant of the analysed job (needs blocking or two higher-priority tasks)"),
 "C02A": ("src/edf/fully_nonpreemptive.rs: busy-window bound L counts only one job of the task under analysis", "at least two jobs of the analysed task in the real busy window and the worst job beyond the truncated L (3+ tasks, long deadlines); also turns Err into Ok for overloaded sets"),
 "C02B": ("src/edf/floating_nonpreemptive.rs: saturation applied before the deadline shift of the other tasks' steps", "an interfering task with a shorter relative deadline whose shifted step (deadline tie) carries the worst case"),
 "C03A": ("src/demand/slice.rs: Slice::steps_iter concatenates (flat_map) instead of merging (kmerge) the components' steps", "jitter/bursts so that the maximum lies at a step of a task that is not listed first"),
 "C03B": ("src/fifo/rta.rs: search space cut at A + 1 < L instead of A < L", "a busy window of length 1: a single task with WCET 1 (returns Ok(0))"),
 "C04A": ("src/ros2/ecrts19.rs rta_processing_chain: interference interval loses its + epsilon", "an interferer released exactly at the instant the last chain callback would be picked"),
 "C04B": ("src/ros2/ecrts19.rs rta_processing_chain: busy-window bound uses the last callback's demand instead of the full chain's", "overlapping chain instances and a later offset that dominates offset 0"),
 "C05A": ("src/ros2/rr.rs CallbackType::is_pp(): forgets Polled(_)", "bw analysis with interfering polled callbacks of KNOWN priority whose steps must enter the offset search space"),
 "C05B": ("src/ros2/rr.rs direct_rbf: fall-through arm loses its + 1", "rr analysis, known-priority polled interferer against an unknown-priority analysed callback"),
 "C06A": ("src/fixed_priority/fully_nonpreemptive.rs: blocking bound dropped from the busy-window fixed point only", "non-zero blocking plus a bursty curve whose worst offset lies in [L', L), or a limit between L' and L (Ok instead of Err)"),
 "C06B": ("src/edf/fully_preemptive.rs: take_while(< L) moved in front of the deadline shift", "another task with a later deadline, plus a tight limit (spurious Err) or bursty curves at high load"),
 "C07A": ("src/ros2/ecrts19.rs rta_polling_point_callback: least_wcet_in_interval(response) without the offset", "non-scalar cost model (multiframe with a cheap later frame), a step offset > 0, a higher-priority arrival in the cut-off part"),
 "C07B": ("src/ros2/bw.rs: offset search space take_while(<= max_offset)", "a subchain of at least two callbacks and an arrival-curve step exactly at the offset bound"),
 "C08A": ("src/fixed_point.rs search_with_offset: limit applied to offset + r", "non-zero offset and a limit in [r*, offset + r*)"),
 "C08B": ("src/fixed_point.rs max_response_time: the last error wins", "two unequal errors in one sequence"),
 "C09A": ("src/supply/constrained.rs service_time: zero-demand early return removed", "Constrained reservation with deadline > budget, demand exactly 0"),
 "C09B": ("src/supply/mod.rs default service_time: doubling search overshoots", "a user-defined SupplyBound relying on the default method, small demand relative to the initial blackout"),
 "C10A": ("src/arrival/sporadic.rs clone_with_jitter: max instead of sum", "a Sporadic that already has jitter gets more jitter added"),
 "C10B": ("src/arrival/propagated.rs clone_with_jitter: drops the jitter it already carries", "two-step jitter chain on a curve-based model"),
 "C11A": ("src/arrival/sporadic.rs steps_iter: filter period*j > jitter + epsilon", "jitter % period == period - 1: the step at delta = 2 is dropped"),
 "C11B": ("src/arrival/propagated.rs steps_iter: guard on the leading step removed", "a Propagated over a never-arriving input (reverts fix c1ab5eb)"),
 "C12A": ("src/arrival/arrival_curve_prefix.rs from_arrival_bound_until: delta < horizon", "a source step exactly at the chosen horizon"),
 "C12B": ("src/arrival/sporadic.rs steps_iter: same slip as C11A, observed on every derived curve", "jitter + 1 a multiple of the period"),
 "C13A": ("src/arrival/curve.rs extrapolate_next: range 0..n/2 drops the middle split", "odd prefix length whose middle split is the strict maximum"),
 "C13B": ("src/arrival/curve.rs ExtrapolatingCurve::number_arrivals: lookup before extrapolate (stale value)", "a first query beyond the cached prefix; ascending unit-step queries never see it"),
 "C14A": ("src/wcet/curve.rs from_trace: .rev() dropped (reverts fix f39bbab)", "worst runs at the very end of the trace"),
 "C14B": ("src/wcet/curve.rs extrapolate_next: range starts at 1", "the split '1 job + L jobs' strictly best (bursty cost curves)"),
 "C15A": ("src/arrival/poisson.rs number_arrivals: break when a pmf term is exactly 0.0", "mean above ~745 (first term underflows): returns 0"),
 "C15B": ("src/arrival/poisson.rs arrival_probability: zero-mean guard mean < 0.0", "exactly zero mean (delta = 0 or rate = 0): NaN, number_arrivals never returns for rate 0"),
 "C16A": ("src/demand/{mod,aggregate,slice}.rs: service_needed_by_n_jobs takes the first n costs of a descending merge", "a component whose job costs are not non-increasing (multiframe past one frame), 0 < n < jobs"),
 "C16B": ("src/demand/slice.rs job_cost_iter: .dedup() after .kmerge()", "two adjacent equal job costs in a Slice"),
 "C17A": ("src/ros2/bw.rs max_self_interfering_instances: half-open instead of closed interval", "an initial burst (jitter >= period); hardening moves an activation into the burst and the bound drops"),
 "C17B": ("src/edf/fully_preemptive.rs: take_while(< L) before the deadline shift (same slip as C06B)", "interfering deadline longer than the analysed task's, tight limit: Err turns into Ok after hardening"),
 "C18A": ("src/fifo/rta.rs: demand window widened by one tick", "two RBF steps exactly one tick apart with the worst case at the later one (J = T - 1)"),
 "C18B": ("src/arrival/curve.rs extrapolate_next: same slip as C13A, observed as a non-attained FP bound", "ExtrapolatingCurve over a prefix of odd length"),
 "C19A": ("src/edf/limited_preemptive.rs: interfering workload min(AF + epsilon, ...)", "interfering task with a sufficiently shorter deadline and an arrival exactly on the fixed point A+F"),
 "C19B": ("src/fixed_priority/limited_preemptive.rs: self-interference rbf(A) + rtct instead of rbf(A+1) - rem_cost", "a release burst of the analysed task (jitter >= period or bursty curve)"),
 "C20A": ("src/edf/floating_nonpreemptive.rs: F = AF - A without saturation", "an offset A > 0 with fixed point A+F below A (other task with a much later deadline): panic in debug, wrap-around in release"),
 "C20B": ("src/ros2/bw.rs singleton branch: distance_to instead of saturating_sub", "singleton subchain plus a polled interferer whose step adds an offset with F* < t_a"),
}

NEEDS2 = {
 "C01A": ("src/fixed_priority/fully_preemptive.rs: busy-window equation evaluates the higher-priority demand at L - epsilon", "a higher-priority job released exactly one tick before the truncated window would drain AND the worst job among the dropped later offsets (three tasks, arbitrary deadlines; 0.12 % of random sets)"),
 "C01B": ("src/fixed_priority/floating_nonpreemptive.rs + src/fixed_point.rs: per-offset search via search_with_offset(A, ...) while the right-hand side still expects A + F, masked by a saturating subtraction in search_with_offset — two sites, each harmless or loudly failing alone", "a multi-job busy window whose worst job is not the first one (offset A > 0)"),
 "C06A": ("src/fixed_priority/floating_nonpreemptive.rs: busy-window equation evaluates the higher-priority demand at L + epsilon", "a higher-or-equal-priority release exactly when the true busy window ends: Err for limits in [L, L'), or a larger value with bursty curves"),
 "C06B": ("src/fixed_point.rs search_with_offset: loop condition < instead of <=", "a least solution exactly equal to the divergence limit: Err instead of Ok(limit)"),
 "C17A": ("src/edf/limited_preemptive.rs: deadline window of the other tasks' workload one tick too long (closed interval + epsilon)", "another task with a longer deadline and a further arrival step of the analysed task one tick before its shifted step: each value stays safe, but hardening DROPS the bound"),
 "C17B": ("src/edf/floating_nonpreemptive.rs: priority-inversion bound takes min() instead of max() over the blockers", "three tasks, two potential blockers with different region lengths: adding a task lowers the bound"),
 "C18A": ("src/arrival/curve.rs lookup_arrivals: slice::binary_search (returns the last of equal entries)", "bursty ExtrapolatingCurve and a window length exactly equal to a repeated distance: pessimistic, never unsafe"),
 "C18B": ("src/arrival/curve.rs jobs_within_largest_known_distance: rposition instead of position", "a plain Curve whose prefix ends in a plateau, queried beyond the prefix (outside C18's stated domain of auto-extrapolating curves; breaks C11/C12/C13)"),
 "C02A": ("src/demand/mod.rs step_offsets: take_while(non-zero) instead of filter(non-zero)", "a task modelled by an ArrivalCurvePrefix (its steps_iter starts with 0): its offsets vanish from every search space"),
 "C02B": ("src/edf/limited_preemptive.rs: blocking bound taken from the latest-deadline blocker (max_by_key deadline) instead of the longest segment", "three tasks, two potential blockers, the one with the later deadline has the shorter segment"),
 "C03A": ("src/arrival/aggregated.rs SumOf::steps_iter: merges the second summand with itself", "a sum_of arrival bound whose first summand alone steps at the worst-case offset (> 0, i.e. with jitter)"),
 "C03B": ("src/demand/mod.rs step_offsets: take_while instead of filter (same slip as round-2 C02-A), observed under FIFO", "an ArrivalCurvePrefix used directly: search space empty, Ok(0)"),
 "C04A": ("src/ros2/ecrts19.rs rta_polling_point_callback: offsets enumerated from the interfering demand instead of the own demand", "a later own offset dominates and does not coincide with an interferer step (0.4 % of three-callback workloads)"),
 "C04B": ("src/ros2/ecrts19.rs rta_timer: else arm of the interference interval loses its epsilon", "full-bandwidth reservation (budget = period), offset 0, zero blocking, no own burst"),
 "C05A": ("src/ros2/rr.rs polling_point_bound: number_arrivals(R - epsilon)", "rr analysis, top-priority known polled callback with WCET exactly 1, all others polled with known lower priority"),
 "C05B": ("src/ros2/bw.rs: F* = S* - 1 + omega instead of service_time(supply(S*) - 1 + omega)", "non-dedicated supply and a callback whose execution spans a budget boundary"),
 "C07A": ("src/ros2/rr.rs polling_point_bound: number_arrivals(R - epsilon) (same slip as round-2 C05-A), observed against the equations", "assumed bound exactly on a step of the arrival curve and an interferer limited by the polling-point cap"),
 "C07B": ("src/ros2/rr.rs is_higher_callback_priority_than: a <= b", "two polled callbacks with the SAME known priority value"),
 "C08A": ("src/fixed_point.rs max_response_time: an error that follows an Ok value is dropped", "one error in a non-first position"),
 "C08B": ("src/fixed_point.rs brute_force_search_with_offset (debug only): limit exclusive", "a fixed point exactly equal to the divergence limit: panic with debug assertions, Ok in release"),
 "C09A": ("src/supply/mod.rs default service_time: running 'missing' counter double-counts earlier supply (undershoots)", "user-defined supply relying on the default, demand needing more than one replenishment"),
 "C09B": ("src/supply/constrained.rs Constrained::new: deadline clamped with max(period) instead of an assertion", "any Constrained::new with deadline < period silently becomes the periodic reservation"),
 "C10A": ("src/arrival/aggregated.rs SumOf::clone_with_jitter: first summand cloned twice", "sum_of followed by clone_with_jitter with the second operand denser than the first"),
 "C10B": ("src/arrival/curve.rs FromIterator for Curve: stray + epsilon makes the vector strictly increasing", "a curve collected from a vector with equal neighbouring entries (bursts, plateaus)"),
 "C11A": ("src/arrival/curve.rs lookup_arrivals: binary_search instead of the linear scan", "a repeated value in the delta-min vector queried at exactly that value"),
 "C11B": ("src/arrival/curve.rs ExtrapolatingCurve::steps_iter degenerate branch: (1..) instead of (0..)", "an ExtrapolatingCurve over a single-entry delta-min vector, used without jitter"),
 "C12A": ("src/arrival/curve.rs from_trace: window.pop_back() instead of pop_front()", "a trace longer than prefix_jobs + 1 whose tightest cluster is not among the first events"),
 "C12B": ("src/arrival/curve.rs lookup_arrivals: binary search (same slip as round-2 C11-A), observed on derived curves and delta_min_iter", "recurring simultaneous arrivals and a query exactly at a repeated distance"),
 "C13A": ("src/arrival/curve.rs: two cooperating edits — cache extended to delta instead of delta + 1, and rposition instead of position in jobs_within_largest_known_distance", "bursty prefix; steps_iter advanced k times on a clone, THEN number_arrivals at exactly the plateau value; each edit alone is harmless"),
 "C13B": ("src/arrival/curve.rs lookup_arrivals: hand-written binary search with early exit", "repeated non-zero delta-min value; the answer varies with the cache length, i.e. with the query history"),
 "C14A": ("src/wcet/curve.rs Curve::extrapolate: if instead of while", "an ExtrapolatingCurve::cost_of_jobs query that jumps two or more job counts past the cached length; the same query asked twice gives two answers"),
 "C14B": ("src/wcet/curve.rs Curve::least_wcet: loop bound (len - 1).min(n)", "the strictly cheapest job at the last prefix position and n >= prefix length"),
 "C16A": ("src/demand/{aggregate,slice}.rs least_wcet_in_interval: Service::none() answers filtered out", "a component with a zero-cost job in the interval next to a component with positive least WCET"),
 "C16B": ("src/demand/{aggregate,slice}.rs least_wcet_in_interval: first item of the merged job_cost_iter", "a non-scalar component whose first job is not its cheapest"),
 "C19A": ("src/edf/fully_nonpreemptive.rs: blocking filter 'releases a job at all' always true (>= none)", "a never-arriving interfering task with a later deadline and the largest WCET"),
 "C19B": ("src/ros2/ecrts19.rs bound_response_time: zero-length-step filter dropped (one hunk of fix 1f59b81 reverted)", "demand built on an ArrivalCurvePrefix: debug panic, release Ok(0) while FIFO gives the right value"),
 "C20A": ("src/fixed_point.rs brute_force_search_with_offset: limit exclusive (same slip as round-2 C08-B)", "limit equal to a fixed point: debug build panics, release returns Ok"),
 "C20B": ("src/wcet/curve.rs least_wcet: len().max(n) instead of min", "curve cost model and more jobs in the window than the curve has entries: index out of bounds in both profiles"),
}

NEEDS3 = {
 "C01A": ("src/fixed_priority/floating_nonpreemptive.rs: blocking_bound added only at offset A = 0", "non-zero blocking, a busy window with at least two jobs of the analysed task, the worst job a later one (R > T)"),
 "C02A": ("src/edf/fully_nonpreemptive.rs: .skip(1) on the other tasks' steps before the deadline shift", "a later-deadline task whose first shifted step (the tie offset D_o - D) carries the worst case: three tasks or a bursty tie task"),
 "C02B": ("src/edf/fully_preemptive.rs: the maximum over offsets stops at the first offset with F = 0", "a vacuous offset in front of the tie offset of a longer-deadline task with a long job"),
 "C04A": ("src/ros2/ecrts19.rs rta_processing_chain: own WCET read from full_chain instead of the last callback", "the full chain described as ONE summed-WCET request bound (as the library's own test does) and an interferer re-arriving while the earlier chain callbacks execute"),
 "C04B": ("src/ros2/ecrts19.rs bound_response_time: offset search stops once an instance completes before the next arrives", "non-preemptive callbacks: a later instance delayed more than the first although the own queue was empty in between (0.044 % of workloads)"),
 "C05A": ("src/ros2/rr.rs direct_rbf: interference window without the response-time extension", "three polled callbacks, a pending higher-priority instance that waited more than one processing window, a bursty lower-priority callback (1 in 14 000 random workloads)"),
 "C05B": ("src/ros2/bw.rs busy_window_rbf, known-priority arm: num_polling_points instead of arrived_bw", "bw with known priorities, three callbacks, activation offset > 0 just after a polling point (0.02 % of workloads)"),
 "C06A": ("src/edf/fully_nonpreemptive.rs: .skip(1) on the other tasks' steps (same slip as round-3 C02-A), observed against the equations", "the offset D_other - D_tua dominates A = 0"),
 "C06B": ("src/edf/limited_preemptive.rs: the analysed task's own demand evaluated at min(AF, A+1)", "a busy window with at least two jobs of the analysed task where the later job suffers more"),
 "C07A": ("src/ros2/ecrts19.rs: interference interval (prefix + response).saturating_sub(own_wcet) + eps in all three closures", "a chain whose callbacks have DIFFERENT arrival curves (jitter growing along the chain) and a prefix-only step near the end of the busy window: debug panic / release Err"),
 "C07B": ("src/ros2/rr.rs marginal_execution_cost: cost_of_jobs(1)", "rr analysis whose end-of-chain callback has a non-scalar cost model and a self-interfering instance"),
 "C10A": ("src/arrival/curve.rs Curve::number_arrivals: the initial burst counted only in the first repetition of the prefix", "a plain Curve with d[0] = 0 and a window of at least twice the largest known distance"),
 "C10B": ("src/arrival/curve.rs jobs_within_largest_known_distance = lookup_arrivals(L - epsilon)", "a delta-min vector with an entry equal to L - 1, queried at delta >= L"),
 "C11A": ("src/arrival/curve.rs Curve::steps_iter: skip_while(zero) instead of filter(non-zero)", "a plateau at a non-zero distance: repeated steps"),
 "C11B": ("src/arrival/slice.rs impl ArrivalBound for [T]: dedup() per component before kmerge()", "the SLICE implementation with two components sharing a step (delta = 1 always is)"),
 "C12A": ("src/arrival/curve.rs from_trace: early exit of the sliding-window scan", "a tight cluster of three or more events completed later in the trace"),
 "C12B": ("src/arrival/dmin.rs DeltaMinIterator: items labelled with step_count instead of next_count", "any model where two jobs share a step (bursts)"),
 "C13A": ("src/arrival/curve.rs: jobs_in_largest_known_distance = len + 2 AND StepsIter::advance extrapolates to njobs instead of njobs + 1 — each alone unobservable", "THREE operations in order: advance a steps_iter past the cached prefix; extend the cache by >= 2 entries through a clone / jittered clone / second iterator; continue the first iterator (it skips a step)"),
 "C13B": ("src/arrival/curve.rs extrapolate_with_bound, single-entry branch: pushes delta instead of delta - epsilon", "a single-entry prefix followed by an explicit extrapolate_with_bound: optimistic curve"),
 "C17A": ("src/ros2/bw.rs busy_window_rbf: an interfering Timer gets the polled-callback cap", "bw analysis with an interfering timer that releases more jobs than the cap admits; the per-offset bound then depends on steps that are not in the search space, so a hardening that shifts steps (jitter+1, period-1) can lower the result"),
 "C19A": ("src/edf/fully_nonpreemptive.rs: blocking bound = service_needed(epsilon) - epsilon of the blocker", "a later-deadline blocker that can release several jobs at one instant: safe but breaks LP(seg=WCET) == NP"),
 "C19B": ("src/edf/floating_nonpreemptive.rs: shifted search-space steps taken from the analysed task's RBF instead of the other task's", "different periods and a later release of the other task inside the busy window"),
}

NEEDS4 = {
 "C03A": ("src/demand/slice.rs + aggregate.rs: steps_iter skips components whose least_wcet_in_interval(epsilon) is zero", "a non-scalar cost model with a zero-cost frame reached by the initial burst (Multiframe [5,3,0], jitter >= two periods): the task keeps its demand but loses its later steps"),
 "C03B": ("src/fifo/rta.rs: early exit of the maximum over offsets, off by one (>= instead of >)", "the worst offset is the last step inside the busy window and exceeds all earlier ones by exactly one tick (needs jitter; 1.2 % of schedulable sets)"),
 "C08A": ("src/fixed_point.rs search_with_offset: iteration starts at service_time(epsilon) instead of 1", "a supply with an initial blackout and a least solution shorter than the blackout (non-zero offset, or w(1) = 0, or a limit below the blackout)"),
 "C08B": ("src/fixed_point.rs search_with_offset: loop condition rewritten in absolute time (offset + limit)", "non-zero offset and a divergence limit above u64::MAX - offset (\"no threshold\"): Err in release, panic with overflow checks"),
 "C09A": ("src/supply/mod.rs default service_time: search starts at demand + epsilon", "a supply without blackout (budget = period) or zero demand, reached through the default implementation only"),
 "C09B": ("src/supply/periodic.rs provided_service: debug_assert comparing with the linear lower bound by u64 cross-multiplication", "budget * delta >= 2^64 (nanosecond time base): panic with debug assertions only, no value changes"),
 "C14A": ("src/wcet/curve.rs from_trace: first-sample branch pushes c instead of total_cost", "a cold-start trace whose first m jobs are the most expensive m-run"),
 "C14B": ("src/wcet/curve.rs FromIterator: running maximum starts at index 2", "a non-monotone cumulative vector whose dip is at the second entry"),
 "C15A": ("src/arrival/poisson.rs arrival_probability: ln k! by a truncated Stirling series for k >= 20", "epsilon below the lost probability mass (1e-9 with means 10..140): no termination / late quantile; pmf off by 1/(360 k^3)"),
 "C15B": ("src/arrival/poisson.rs Poisson::approximate: arguments of ApproximatedPoisson::new swapped", "objects obtained through Poisson::approximate (no test uses that path)"),
 "C16A": ("src/demand/rbf.rs: service_needed_by_n_jobs override with an 'all jobs cost the same' fast path keyed on cost_of_jobs(n) == n * cost_of_jobs(1)", "a multiframe with >= 3 distinct frames whose window average equals the first frame, and 0 < max_jobs < jobs"),
 "C16B": ("src/demand/mod.rs default service_needed_by_n_jobs: ascending sort + skip(len - max_jobs) with plain subtraction", "a job limit above the number of jobs: panic with overflow checks, 0 in release"),
 "C18A": ("src/fixed_priority/fully_preemptive.rs: 'no interference' shortcut returns rbf(1) when there are no interfering tasks", "a highest-priority (or single) task with release jitter and C + J > T: a later job of the busy window responds more slowly"),
 "C20A": ("src/fixed_priority/fully_preemptive.rs: per-offset search gets the limit A + limit", "a divergence limit within a few ticks of u64::MAX and a busy window with at least two jobs of the analysed task: panic with overflow checks, bogus Err in release"),
 "C20B": ("src/fifo/rta.rs: search space A <= closed_from_time_zero(L)", "a zero-demand workload (L = 0): underflow panic with overflow checks, Ok(0) in release"),
}

def rounds():
    for key, val in sorted(NEEDS.items()):
        yield key, val, f"/tmp/wt/out-{key[:3]}", [f"/tmp/seedres/{key}.recheck.txt", f"/tmp/seedres/{key}.quick.txt"], f"/tmp/seedres/{key}.quick.txt", f"{key[:3]}-{key[3]}", 1
    for key, val in sorted(NEEDS2.items()):
        name = f"{key[:3]}-{'C' if key[3] == 'A' else 'D'}"
        yield key, val, f"/tmp/wt/out2-{key[:3]}", [f"/tmp/seedres/R2{key}.recheck.txt", f"/tmp/seedres/R2{key}.quick.txt"], f"/tmp/seedres/R2{key}.quick.txt", name, 2
    for key, val in sorted(NEEDS3.items()):
        name = f"{key[:3]}-{'E' if key[3] == 'A' else 'F'}"
        yield key, val, f"/tmp/wt/out3-{key[:3]}", [f"/tmp/seedres/R3{key}.recheck.txt", f"/tmp/seedres/R3{key}.quick.txt"], f"/tmp/seedres/R3{key}.quick.txt", name, 3

NEEDS5 = {
 "C01A": ("src/fixed_priority/fully_preemptive.rs: the maximum over offsets stops after 16 consecutive offsets that did not raise the bound ('the window is draining')", "a busy window with at least 18 jobs of the analysed task and the true maximum behind a long plateau: near-saturation systems with co-prime periods, smallest found (C,T) = (2,7),(4,19),(1,2); no system with single-digit periods or <= 2 tasks"),
 "C01B": ("src/arrival/curve.rs: Curve caches the number of jobs in its largest known distance; extrapolate_with_bound (used by Curve::from(&ArrivalCurvePrefix)) does not refresh it", "a Curve converted from a prefix object, queried beyond the prefix horizon: one job too few per repetition"),
 "C02A": ("src/edf/fully_nonpreemptive.rs: per-offset blocking bound from a table of blockers sorted by deadline whose running maximum is built in the wrong direction", "at least three potential blockers (four tasks) with the longest one two or more positions away in deadline order; every system with <= 3 tasks is unchanged"),
 "C02B": ("src/edf/floating_nonpreemptive.rs: interfering workload summed over other_tasks[..partition_point(D_o <= D + A)] (assumes deadline order)", "three or more interfering tasks listed in non-deadline order"),
 "C03A": ("src/demand/mod.rs: shared merged_steps helper for Slice/Aggregate skips one component too many after the three merged directly", "an aggregate of at least four components whose component at index 3 alone owns the worst-case step"),
 "C04A": ("src/ros2/ecrts19.rs rta_timer: higher-priority interference interval shortened by the blocking bound", "non-zero blocking, a higher-priority timer released in the cut-off part of the window (three callbacks)"),
 "C05A": ("src/ros2/bw.rs: busy-window length (Lemma 18) computed with activation offset 0, so the polling-point cap applies inside the busy-window equation", "a busy window spanning three or more releases of a polled callback; utilisation >= 90 % (jitter-free: three or more callbacks)"),
 "C06A": ("src/edf/fully_nonpreemptive.rs: blocking look-up table filled upwards instead of downwards (same idea as round-5 C02-A, written independently)", "four tasks, three with later deadlines, the longest blocker third in deadline order"),
 "C07A": ("src/ros2/bw.rs: debug-only brute-force cross-check of the search space bounded by (0..100_000) — and it IS the search space in debug builds", "a busy window longer than 100 000 ticks (microsecond time base): debug and release builds return different bounds"),
 "C07B": ("src/ros2/bw.rs: activation scan stops at the first activation whose bound is 0", "a later instance of the analysed callback after a run of zero bounds (four callbacks, or two with jitter at 0.02 %)"),
 "C18A": ("src/arrival/curve.rs: Curve::extrapolate stops growing the cached prefix at 1024 entries", "a window covering more than 1024 activations of an auto-extrapolating curve: the fall-back composition over-counts by one; bounds stay safe but are no longer attained (smallest: analysed cost 342 against curve [1,2,4])"),
}

NEEDS6 = {
 "C08A": ("src/supply/mod.rs default service_time: 128-round fast path followed by doubling and bisection; after the 128th round the freshly jumped-to t is not probed", "a user-defined supply (default inverse) whose jump loop needs exactly 128 rounds: budget 1, period 32, demand 32 (1056 instead of 1055)"),
 "C09A": ("src/supply/periodic.rs provided_service: number of full periods computed in f64", "window lengths beyond 2^53 one short of a multiple of the period: one unit of service too many"),
 "C09B": ("src/supply/mod.rs default service_time: jump-ahead loop capped at 1000 rounds, falls through silently", "sparse supplies through the default inverse: budget 1, period 175, demand 173; (1,600) demand 1"),
 "C10A": ("src/arrival/mod.rs divide_with_ceil in f64", "delta + jitter beyond 2^53: Periodic / Sporadic one arrival too few"),
 "C10B": ("src/arrival/curve.rs From<Sporadic> for Curve: closing entry (T*n + eps, n+1) appended after 500 jobs, forgetting the jitter", "jitter > 0 and a window holding more than 500 jobs (T=1, J=40: delta 461)"),
 "C11A": ("src/arrival/mod.rs brute_force_steps_iter (= default steps_iter): gallop and bisect after 64 step-free ticks, bisection predicate finds the last step of a window only", "a model relying on the default steps_iter, a step-free stretch longer than 64, then two steps in one gallop window (delta-min [1, 66])"),
 "C11B": ("src/arrival/curve.rs ExtrapolatingCurve StepsIter::advance: burst-skipping loop bounded by a 16-job look-ahead", "runs of more than 16 equal delta-min entries (16 simultaneous arrivals): steps yielded twice"),
 "C12A": ("src/arrival/arrival_curve_prefix.rs lookup: partition_point with < instead of <= once a prefix has more than 32 steps", "a prefix object with 33 or more steps, queried exactly at a step position"),
 "C12B": ("src/arrival/arrival_curve_prefix.rs from_arrival_bound_until: .take(1024) steps while keeping the requested horizon", "more than 1024 steps inside the horizon (Periodic(1), horizon 1025)"),
 "C13A": ("src/arrival/curve.rs ExtrapolatingCurve StepsIter: cache topped up in batches of 256 with an off-by-one guard + 256-entry warm-up (two sites)", "at least 171..258 next() calls on the iterator that runs off the cache end: one step is skipped; depends on query history"),
 "C13B": ("src/arrival/curve.rs extrapolate_next: split range capped at 16", "prefixes of 18 or more entries whose late entries carry the information ([1..17, 36])"),
 "C14A": ("src/wcet/curve.rs extrapolate_next: ternary search over splits (assumes unimodality) for n >= 130", "a measured prefix of about 46+ entries with rare expensive jobs, queried at n >= 131: bound raised above the plain curve, not monotone"),
 "C14B": ("src/wcet/curve.rs Curve::cost_of_jobs: repetition count through u32", "a plain cost curve queried at n >= len * 2^32"),
 "C16A": ("src/demand/mod.rs default service_needed_by_n_jobs: select_nth_unstable_by with the pivot of an ascending layout for more than 256 jobs", "more than 256 jobs in the interval, two distinct costs, 0 < n < jobs"),
 "C16B": ("src/demand/rbf.rs RBF::service_needed_by_n_jobs override: BinaryHeap::with_capacity(max_jobs)", "a job limit of 2^60 or more ('no limit'): capacity-overflow panic; 2^34..2^60: allocation failure aborts the process"),
 "C17A": ("src/fixed_point.rs search_with_offset: gives up after 10 000 rounds", "a single search needing more than 10 000 rounds (a burst of 12 000 unit jobs one tick apart): Err for the base, Ok for harder systems that leap"),
 "C17B": ("src/fixed_point.rs search_with_offset: accepted as converged once the bound moves by at most one millionth of the assumed value", "time values of 10^6 and more with small steps near the fixed point"),
 "C19A": ("src/edf/fully_preemptive.rs: returns Ok(L) when the busy window exceeds 100 000 ticks", "a busy window longer than 100 000 ticks: safe, but disagrees with LP-EDF(segments 1) / floating-NP EDF(1)"),
 "C19B": ("src/fixed_priority/floating_nonpreemptive.rs: .take(1 << 16) on the search space", "more than 65 536 releases of the analysed task in one busy window with the worst one late (family hp (2g,3g), tua (g-1,3g-2), g = 65 538)"),
}

NEEDS7 = {
 "C01A": ("src/fixed_priority/limited_preemptive.rs: shortcut to the fully preemptive analysis when the analysed task's last segment is <= 1 (drops the blocking bound)", "limited-preemptive FP, analysed task with a last segment of exactly one tick, a lower-priority task with a non-preemptive segment of at least 2"),
 "C02A": ("src/edf/fully_nonpreemptive.rs: the interfering RBFs are built with a filter that skips never-arriving tasks, the search space still zips them with the unfiltered task list", "an arrival::Never task listed before real tasks, unequal deadlines, at least three real tasks: bound one or two ticks too small"),
 "C03A": ("src/arrival/propagated.rs steps_iter: skips as many input steps as there are jobs in the jitter window (jobs vs steps)", "a bursty input (simultaneous arrivals) under propagated jitter whose dropped step carries the worst FIFO offset and coincides with no other task's step"),
 "C04A": ("src/ros2/ecrts19.rs rta_processing_chain: the request bounds of chain prefix and last callback swapped between their windows", "overlapping chain instances and a prefix WCET larger than the last callback's (15 % of random workloads)"),
 "C05A": ("src/ros2/rr.rs is_higher_callback_priority_than: a.wrapping_sub(b) < 0", "two known priorities at least 2^31 apart (sentinels i32::MIN / i32::MAX) plus a third callback that stretches a processing window"),
 "C18A": ("src/fixed_priority/fully_nonpreemptive.rs: the search over offsets stops once a job of the analysed task completes no later than the next release (the refuted CAN-analysis assumption), via a Cell shared between two sites", "at least two jobs of the analysed task in the busy window, every earlier one completing by the next release, a later one strictly worse (0.28 % of schedulable systems)"),
}

NEEDS8 = {
 "C01A": ("src/fixed_priority/fully_nonpreemptive.rs: the offset scan is capped with .take(number_arrivals(L) - 1) although step_offsets already yields A = 0 (drops the last job of the busy window)", "a busy window with at least two jobs of the analysed task and the very last one the worst (6 of 29 450 grid systems; witness (3,9) under (3,6),(1,9), blocking 1)"),
 "C02A": ("src/edf/limited_preemptive.rs: the offset search space skips interfering tasks with a deadline <= the analysed task's ('their steps saturate at A = 0')", "an interferer with a shorter deadline, a response time beyond D - D_o and one of its steps just past D - D_o that is no step of another task"),
 "C03A": ("src/arrival/sporadic.rs steps_iter: an extra 'do not report delta = 1 twice' filter removes the genuine step at delta = 2", "a Sporadic with jitter = T - 1 (mod T) whose offset A = 1 is the worst FIFO offset (C=60, T=100, J=99: 79 instead of 119)"),
 "C05A": ("src/ros2/bw.rs max_self_interfering_instances: arrivals counted in [0, t_a) instead of [0, t_a]", "bw analysis, at least two instances of the analysed callback in one busy window and the later offset dominating (jitter or burst on the analysed callback)"),
 "C06A": ("src/fixed_priority/limited_preemptive.rs: the scan over offsets stops once L - (A+1) <= the running maximum (sound bound is L - A)", "a bursty curve of the analysed task and a later job whose bound exceeds all earlier ones by exactly 1 and ends exactly at the end of the busy window"),
 "C07A": ("src/fixed_point.rs search_with_offset: while-loop rewritten as loop with early exit 'bound >= limit => give up' (should be >)", "a divergence limit exactly equal to a required fixed point > 1: Err instead of Ok(limit)"),
 "C08A": ("src/fixed_point.rs search_with_offset: convergence test == instead of <=", "non-zero offset, demand w(1) > 0 covered exactly at the offset (least solution 0) and a workload with w(0) < w(1): the search re-evaluates the workload at r = 0 (panic in debug, bogus Err in release)"),
 "C09A": ("src/supply/periodic.rs provided_service rewritten with division/remainder; the rest < slack branch loses its min(budget, ...) clamp", "budget < period/2 and a window strictly inside a flat segment of the bound (delta >= period, delta mod period < period - 2*budget): too small / underflow"),
 "C10A": ("src/arrival/arrival_curve_prefix.rs from_arrival_bound_until: steps recorded with delta < horizon instead of <=", "a recorded model with a step exactly at the horizon (T*k + 1 - J == horizon): one arrival too few at the horizon and in every repetition"),
 "C11A": ("src/arrival/arrival_curve_prefix.rs steps_iter: per-cycle filter drops the step at exactly the horizon in every cycle but the first", "a prefix object with a step exactly at its horizon, examined beyond 2*horizon"),
 "C12A": ("src/arrival/curve.rs from_arrival_bound: positive_distance_seen updated before the keep-condition (the first non-zero distance is cut off)", "a source with a burst of three or more simultaneous arrivals and a job limit ending inside the burst: the derived vector is all zeros and every query divides by zero"),
 "C13A": ("src/arrival/curve.rs extrapolate_with_bound: guard len + 2 == njobs became <= njobs (a bound meant for a later element is stored as the next distance)", "an explicit extrapolate_with_bound call whose njobs exceeds prefix length + 2: fewer arrivals than the prefix admits"),
 "C14A": ("src/wcet/curve.rs extrapolate_next: splits iterate 0..(n/2) instead of 0..=(n/2) (drops the equal split)", "a front-loaded cost prefix of odd length queried at an even job count whose best split is m + m (10,11,12: 33 instead of 24 at n = 6)"),
 "C15A": ("src/arrival/poisson.rs number_arrivals: 'termination guard' stops at ceil(mean + 12 sqrt(mean))", "a sparse process (mean below ~2) with a tiny epsilon (mean 0.01: below 1.7e-7): the cap cuts in before the quantile"),
 "C16A": ("src/demand/{aggregate,slice}.rs service_needed_by_n_jobs_per_component: fast path 'max_jobs >= delta => unrestricted demand'", "a bursty component with more arrivals than time units in the window and delta <= max_jobs < its job count"),
 "C17A": ("src/fixed_priority/fully_preemptive.rs: fast path returns the busy-window length L when there are no interfering tasks", "an analysed task without interference whose busy window spans several of its own jobs not all at offset 0 (jitter, C + J > T): adding a tiny task LOWERS the bound"),
 "C18A": ("src/fifo/rta.rs: the scan over offsets stops as soon as the per-offset bound drops below the running maximum ('backlog drains')", "a jittered/bursty task whose second release in the busy window is the worst case with a step of another task in between where the bound dips ((5,20,J15),(1,3): 6 instead of 7) - unsafe, hence not attained"),
 "C19A": ("src/fifo/rta.rs: search space cut at A + 1 < L instead of A < L (same slip as round-1 C03-B, submitted independently for C19)", "a busy window of length 1 (total demand released at one instant is one service unit): FIFO returns Ok(0) while rta_event_source on a dedicated supply and NP-EDF return Ok(1)"),
 "C04A": ("src/ros2/ecrts19.rs rta_polling_point_callback: own WCET looked up with least_wcet_in_interval(response) instead of (prefix + response) (same slip as round-1 C07-A, submitted independently for C04)", "a non-scalar cost model of the analysed callback with a cheaper later frame, a later own offset dominating and a higher-priority release in the cut-off part of the window (0.15 % of a two-callback multiframe grid); scalar costs are unaffected"),
 "C20A": ("src/arrival/curve.rs: number_arrivals multiplies full windows by jobs_in_largest_known_distance() instead of the deleted jobs_within_largest_known_distance() ('duplicate helper')", "a plain Curve whose delta-min vector ends in a plateau ([0,10,10]) queried at/after the largest distance; as an end-of-chain callback in bw::rta_subchain the debug-only step cross-check panics while release returns Ok"),
}

def rounds8():
    for key, val in sorted(NEEDS8.items()):
        name = f"{key[:3]}-P"
        yield key, val, f"/tmp/wt/out8-{key[:3]}", [f"/tmp/seedres/R8{key}.recheck.txt", f"/tmp/seedres/R8{key}.quick.txt"], f"/tmp/seedres/R8{key}.quick.txt", name, 8

def rounds7():
    for key, val in sorted(NEEDS7.items()):
        name = f"{key[:3]}-{'M' if key[3] == 'A' else 'N'}"
        yield key, val, f"/tmp/wt/out7-{key[:3]}", [f"/tmp/seedres/R7{key}.recheck.txt", f"/tmp/seedres/R7{key}.quick.txt"], f"/tmp/seedres/R7{key}.quick.txt", name, 7

def rounds6():
    for key, val in sorted(NEEDS6.items()):
        name = f"{key[:3]}-{'K' if key[3] == 'A' else 'L'}"
        yield key, val, f"/tmp/wt/out6-{key[:3]}", [f"/tmp/seedres/R6{key}.recheck.txt", f"/tmp/seedres/R6{key}.quick.txt"], f"/tmp/seedres/R6{key}.quick.txt", name, 6

def rounds5():
    for key, val in sorted(NEEDS5.items()):
        name = f"{key[:3]}-{'I' if key[3] == 'A' else 'J'}"
        yield key, val, f"/tmp/wt/out5-{key[:3]}", [f"/tmp/seedres/R5{key}.recheck.txt", f"/tmp/seedres/R5{key}.quick.txt"], f"/tmp/seedres/R5{key}.quick.txt", name, 5

def rounds4():
    for key, val in sorted(NEEDS4.items()):
        name = f"{key[:3]}-{'G' if key[3] == 'A' else 'H'}"
        yield key, val, f"/tmp/wt/out4-{key[:3]}", [f"/tmp/seedres/R4{key}.recheck.txt", f"/tmp/seedres/R4{key}.quick.txt"], f"/tmp/seedres/R4{key}.quick.txt", name, 4

def main():
    root = "/verif/seeded"
    os.makedirs(root, exist_ok=True)
    index = []
    for key, (change, needs), out, cands, basefile, name, rnd in list(rounds()) + list(rounds4()) + list(rounds5()) + list(rounds6()) + list(rounds7()) + list(rounds8()):
        pid, v = key[:3], key[3]
        res = None
        # the newest confirmation run wins
        for cand in cands:
            if os.path.exists(cand):
                res = cand
                break
        dstdir = f"{root}/{name}"
        if not (os.path.exists(f"{out}/mutant{v}.diff") and res):
            # keep what was collected earlier if the scratch inputs are gone
            if os.path.exists(f"{dstdir}/meta.json"):
                index.append(json.load(open(f"{dstdir}/meta.json")))
            continue
        base = open(basefile).read() if os.path.exists(basefile) else open(res).read()
        # per check the newest run wins: lines of the re-check file (current harness) override
        # those of the first full pass
        per = {}
        for f in [basefile, res]:
            if os.path.exists(f):
                for line in open(f).read().splitlines():
                    m = re.match(r"(C\d\d) exit=", line)
                    if m:
                        per[m.group(1)] = line
        # final regression pass with the committed machinery (own check + previous catchers)
        for fin in [f"/tmp/seedres/FINAL3/{name}.txt", f"/tmp/seedres/FINAL4/{name}.txt"] if rnd < 7 else ([f"/tmp/seedres/FINAL4/{name}.txt"] if rnd < 8 else []):
          if os.path.exists(fin):
            for line in open(fin).read().splitlines():
                m = re.match(r"(C\d\d) exit=", line)
                if m:
                    per[m.group(1)] = line
        txt = "\n".join(per[k] for k in sorted(per))
        def after(label, t):
            m = re.search(re.escape(label) + r"\n(test result: [^\n]*)", t)
            return m.group(1) if m else None
        suite = re.findall(r"suite with change:\n(test result: [^\n]*)\n(test result: [^\n]*)", base)
        caught, mach, thorough_only = [], [], []
        for line in txt.splitlines():
            m = re.match(r"(C\d\d) exit=(\d+) violations=(\d+) keys: (.*)", line)
            if m:
                if m.group(2) == "1":
                    caught.append({"check": m.group(1), "violation_lines": int(m.group(3)), "keys": m.group(4).split()})
                elif m.group(2) != "0":
                    mach.append(m.group(1))
        th = basefile.replace(".quick.txt", ".thorough.txt")
        if os.path.exists(th):
            for line in open(th).read().splitlines():
                m = re.match(r"(C\d\d) exit=1 violations=(\d+) keys: (.*)", line)
                if m and m.group(1) not in [c["check"] for c in caught]:
                    thorough_only.append({"check": m.group(1), "violation_lines": int(m.group(2)), "keys": m.group(3).split()})
        os.makedirs(dstdir, exist_ok=True)
        shutil.copy(f"{out}/mutant{v}.diff", f"{dstdir}/patch.diff")
        shutil.copy(f"{out}/demo{v}.rs", f"{dstdir}/demo.rs")
        if os.path.exists(f"{out}/notes{v}.md"):
            shutil.copy(f"{out}/notes{v}.md", f"{dstdir}/notes.md")
        meta = {
            "name": name,
            "round": rnd,
            "breaks_property": pid,
            "change": change,
            "needs_to_manifest": needs,
            "origin": "fresh sub-agent given only the property text and its own scratch worktree of /repo" + (" (later round: additionally given the list of earlier changes, to avoid repeats)" if rnd >= 2 else ""),
            "confirmed_by_me": {
                "how": "scratch worktree of /repo HEAD (fix commits included) outside /repo and /verif: demo as tests/seeded_demo.rs on the clean tree, then with patch.diff applied; the repository's own suite with patch.diff applied (cargo test --offline)",
                "demo_on_clean_tree": after("demo on clean tree:", base),
                "demo_with_change": after("demo with change:", base),
                "suite_with_change": list(suite[0]) if suite else None,
            },
            "checks_run": ("every check's quick tier" if rnd < 8 else "the quick tier of the own property's check and of the checks in whose domain the change falls (listed under caught_by_quick / not_caught_by)") + " against an isolated copy of the harness whose path dependency points at the patched worktree",
            "not_caught_by": [l.split()[0] for l in txt.splitlines() if re.match(r"C\d\d exit=0 ", l)] if rnd >= 8 else None,
            "caught_by_quick": caught,
            "caught_only_by_thorough": thorough_only,
            "machinery_errors": mach,
            "apply_with": f"git -C /repo apply /verif/seeded/{name}/patch.diff   (undo: git -C /repo checkout -- .)",
        }
        json.dump(meta, open(f"{dstdir}/meta.json", "w"), indent=1)
        index.append(meta)
    # summary table for DESIGN.md
    lines = ["| seeded change | breaks | what it needs | caught by (quick) | only thorough |", "|---|---|---|---|---|"]
    for m in index:
        lines.append(f"| `{m['name']}` {m['change']} | {m['breaks_property']} | {m['needs_to_manifest']} | {', '.join(c['check'] for c in m['caught_by_quick']) or '—'} | {', '.join(c['check'] for c in m['caught_only_by_thorough']) or ''} |")
    open(f"{root}/SUMMARY.md", "w").write("\n".join(lines) + "\n")
    print(len(index), "seeded changes collected")

main()
