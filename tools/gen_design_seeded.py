#!/usr/bin/env python3
"""Rewrites the seeded-changes table of DESIGN.md (between the SEEDED-TABLE markers) from /verif/seeded/*/meta.json."""
import json, glob, re
rows = []
for f in sorted(glob.glob('/verif/seeded/C*/meta.json')):
    m = json.load(open(f))
    own = m['breaks_property']
    caught = [c['check'] for c in m['caught_by_quick']]
    mark = ', '.join(('**' + c + '**') if c == own else c for c in caught) or '—'
    rows.append(f"| `{m['name']}` | {m.get('round', 1)} | {m['change']} | {m['needs_to_manifest']} | {mark} |")
table = "\n".join(["| seeded change | round | what was changed | what it needs to manifest | caught by (quick tier; own property's check in bold) |", "|---|---|---|---|---|"] + rows)
s = open('/verif/DESIGN.md').read()
s = re.sub(r'<!-- SEEDED-TABLE-BEGIN -->.*?<!-- SEEDED-TABLE-END -->', '<!-- SEEDED-TABLE-BEGIN -->\n' + table + '\n<!-- SEEDED-TABLE-END -->', s, flags=re.S)
open('/verif/DESIGN.md', 'w').write(s)
print(len(rows), "rows")
