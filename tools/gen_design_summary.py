#!/usr/bin/env python3
"""Rewrite the table of DESIGN.md §0 (between the SUMMARY-TABLE markers) from the evidence files."""
import json, re
ROWS = {
 "C01": ("FP scheduler model ×4 preemption models, fixpoint per system", "holds; every bound also attained"),
 "C02": ("EDF scheduler model ×4, arbitrary tie-breaks", "holds"),
 "C03": ("FIFO scheduler model, arbitrary tie-breaks", "holds"),
 "C04": ("ROS 2 executor × reservation automaton (timer, pp, chain, event source)", "holds"),
 "C05": ("same model, self-consistent rr / bw bound vectors", "holds (capped families are counted as truncated)"),
 "C06": ("nine analyses vs naïve all-offset linear-scan evaluator (small, large-parameter and near-saturation boxes)", "holds"),
 "C07": ("six ROS 2 analyses vs naïve evaluators, SBF from the reservation automaton (small and large-parameter boxes)", "holds"),
 "C08": ("all monotone step workloads × supplies × offsets × limits", "holds except limit = 0 (known finding)"),
 "C09": ("reservation automaton: min service over all placements; far windows by periodic extension", "holds"),
 "C10": ("arrival automata: max events per window over all sequences; far windows by periodic extension", "holds"),
 "C11": ("steps_iter vs brute-force increase points", "holds except `ArrivalCurvePrefix` first item 0 (known, test-pinned); 3 defects repaired"),
 "C12": ("traces / conversions / delta_min_iter dual", "holds except `Curve::from(&ArrivalCurvePrefix)` beyond the horizon (known, test-pinned); 2 defects repaired"),
 "C13": ("extrapolation laws + all query histories on shared clones", "holds inside the extended prefix and for every history; looser than plain *beyond* the extended prefix (known)"),
 "C14": ("cost traces, laws, all query histories", "holds; same beyond-prefix finding (known); 2 defects repaired"),
 "C15": ("Poisson quantile grid vs log-space CDF", "holds after repair (was wrong from mean ≈ 130, hung from ≈ 745)"),
 "C16": ("demand composition identities", "holds"),
 "C17": ("every (base, single hardening) pair", "holds"),
 "C18": ("exact model WCRT == bound (strict periodic automata); far-window tightness of extrapolating curves", "holds"),
 "C19": ("analysis pairs on common special cases", "holds"),
 "C20": ("identical case streams in two build profiles", "holds after 7 repairs"),
}
def sci(n):
    if n < 100000: return f"{n:,}".replace(",", " ")
    e = len(str(n)) - 1
    return f"{n / 10**e:.1f}·10^{e}"
lines = ["| id | decided by | level | quick tier: explored | wall | result |", "|---|---|---|---|---|---|"]
for pid, (by, res) in ROWS.items():
    e = json.load(open(f"/verif/evidence/{pid}.json"))
    c = e["coverage"]
    if "states" in c:
        unit = "reservations / points" if pid == "C09" else ("models / points" if pid == "C10" else "systems")
        ex = f"{sci(c['evaluations'])} {unit}, {sci(c['states'])} states"
    else:
        ex = f"{sci(c['evaluations'])} evaluations"
    lines.append(f"| {pid} | {by} | {e['level']} | {ex} ({e['tier']}) | {e['wall_s']:.0f} s | {res} |")
p = "/verif/DESIGN.md"
s = open(p).read()
a = s.index("<!-- SUMMARY-TABLE-BEGIN -->") + len("<!-- SUMMARY-TABLE-BEGIN -->")
b = s.index("<!-- SUMMARY-TABLE-END -->")
s = s[:a] + "\n" + "\n".join(lines) + "\n" + s[b:]
open(p, "w").write(s)
print(len(lines) - 2, "rows")
