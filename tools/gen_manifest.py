#!/usr/bin/env python3
"""Regenerates /verif/MANIFEST.json from the table below (kept next to the code so the two stay in
step).  Usage: python3 tools/gen_manifest.py [ID ...]  — the IDs given (default: all in BUILT) are
listed as checks, everything else goes to not_applicable with the reason recorded here."""
import json, os, sys

ROOT = os.path.dirname(os.path.dirname(os.path.abspath(__file__)))

MC_NOTE = ("Trusted base: the scheduler / executor / reservation / arrival automata of DESIGN.md §4 (a specification of the "
           "platform the property talks about, written from the documented process parameters), the independent trace checker, "
           "the hand-rolled explorer (cross-checked against stateright on a seed-selected sample). Parameter boxes are small "
           "(<= 4 tasks, single-digit periods); inside a box the outer enumeration is complete and each per-system search is "
           "time-unbounded up to the reported pending-job caps.")
EX_NOTE = ("Trusted base: the naive reference evaluator written from the property's definitions (linear scans, no pruning), "
           "the case enumerators. Exhaustive inside the stated box, nothing is claimed outside it.")

P = {
 "C01": dict(cat="model_checking", ref="§4, §6 C01", tech="explicit-state model checking of a uniprocessor FP scheduler model (4 preemption models), fixpoint per system, bound R from the real analysis",
   text="Every task set of the box x every priority level is one system; its FP scheduler model (all curve-compliant release sequences via finite arrival automata, all execution times in [1,C], all placements of non-preemptive regions) is explored to a time-unbounded fixpoint and the invariant 'no pending job of the analysed task is older than R' is checked in every reachable state, R being the value the real dedicated_uniproc_rta returns (smallest Ok over several divergence limits). Counterexamples are shortest traces re-validated by an independent trace checker against the library's own number_arrivals.",
   note=MC_NOTE),
 "C02": dict(cat="model_checking", ref="§4, §6 C02", tech="explicit-state model checking of an EDF scheduler model with arbitrary tie-breaking (4 preemption models)",
   text="Same machinery as C01 with the EDF policy: all tasks carry ages, every minimal-deadline candidate is a successor (arbitrary tie-breaking), deadlines from a menu with D<C, D=T, D>T; all tasks are checked in one fixpoint search per system.",
   note=MC_NOTE),
 "C03": dict(cat="model_checking", ref="§4, §6 C03", tech="explicit-state model checking of a FIFO scheduler model with arbitrary tie-breaking",
   text="FIFO policy, non-preemptive jobs, ties among simultaneous releases explored in every order; every task is checked against the single bound in a fixpoint search per system.",
   note=MC_NOTE),
 "C04": dict(cat="model_checking", ref="§4.5-4.6, §6 C04", tech="explicit-state model checking of a ROS 2 executor x reservation automaton product",
   text="The executor model (timers first, ready set refreshed only when empty, non-preemptive callbacks, chains) is composed with the reservation automaton (every placement of the budget inside each period within the deadline, every initial phase) and arrival automata; explored to a fixpoint per system; bounds from rta_timer / rta_polling_point_callback / rta_processing_chain / rta_event_source.",
   note=MC_NOTE + " The executor semantics of §4.6 are my reading of the property statement (decisions in supplied ticks, arrivals at t visible at t)."),
 "C05": dict(cat="model_checking", ref="§4.6, §6 C05", tech="explicit-state model checking of the executor model against self-consistent rr / bw bound vectors",
   text="Per system the assumed-bound vector is obtained by iterating all singleton rr (resp. bw) analyses upward from the WCETs to a fixed point with the real code; the executor x reservation model is then explored to a fixpoint and every callback (timer, polled known / unknown priority) is checked against its bound.",
   note=MC_NOTE),
 "C06": dict(cat="exploration", ref="§6 C06", tech="bounded-exhaustive input enumeration (small boxes over all arrival-model kinds, plus a box of four/five tasks with parameters in the tens and hundreds) against a naive all-offset linear-scan evaluator",
   text="Every input of the box (task sets up to 3 tasks, jittered/bursty/curve arrivals, deadlines, segment parameters, blocking bounds, priority levels, several limits around L and R) is evaluated by the real analysis and by an evaluator that scans L linearly and examines every offset A in [0,L) with linear-scan fixed points; results including every Err must be equal.",
   note=EX_NOTE),
 "C07": dict(cat="exploration", ref="§6 C07", tech="bounded-exhaustive input enumeration (small boxes plus a box of three/four callbacks with parameters in the tens and hundreds) against naive evaluators with an SBF computed from the reservation automaton",
   text="Each of the six ROS 2 analyses is compared on every input of the box with a literal evaluator of its defining inequalities (every offset up to the busy-window / max-offset bound, linear-scan fixed points, supply-bound function = min over all paths of the reservation automaton).",
   note=EX_NOTE),
 "C08": dict(cat="exploration", ref="§6 C08", tech="exhaustive enumeration of all monotone step workloads on a grid x supplies x offsets x limits",
   text="All non-decreasing workload functions on a small grid, all supplies (dedicated, periodic, constrained, and opaque wrappers exercising the default service_time), all in-busy-window offsets and all limits up to the fixed point + 2 are compared with a linear scan; max_response_time is checked on every result sequence up to length 4.",
   note=EX_NOTE),
 "C09": dict(cat="model_checking", ref="§4.5, §6 C09", tech="explicit-state reservation automaton: min service over all budget placements (DP over the state graph) vs the closed forms; far windows against the validated periodic extension of the model",
   text="For every (Q,D,P) in the box the reservation automaton is explored and sbf_model(delta) = min over all start states and paths is compared with provided_service; service_time is compared with the exact inverse for the specialised and the default implementation; the automaton itself is validated against a literal enumeration of placements.",
   note=MC_NOTE),
 "C10": dict(cat="model_checking", ref="§4.2, §6 C10", tech="explicit-state arrival automata: max events per window over all admissible sequences (DP over the state graph) vs number_arrivals; far windows against the validated periodic extension of the model",
   text="For every model in the box the automaton of its documented process is built, its reachable state graph enumerated and max_events(delta) computed over all paths; number_arrivals must dominate it (equal it for Periodic/Sporadic), be 0 at 0, monotone; jitter composition and superposition laws checked; automata validated against literal definitions on all short release vectors.",
   note=MC_NOTE),
 "C11": dict(cat="exploration", ref="§6 C11", tech="bounded-exhaustive enumeration of arrival/request bounds and compositions against brute-force step detection",
   text="For every constructible ArrivalBound / RequestBound of the box (leaf models, jittered clones, propagated, aggregated, converted, extrapolating) the items of steps_iter below a horizon are compared with the set of points where the bound increases.",
   note=EX_NOTE),
 "C12": dict(cat="exploration", ref="§6 C12", tech="exhaustive enumeration of small traces and conversions against raw window counts and the source model",
   text="All non-decreasing event traces of the box x prefix lengths: from_trace must bound every window of every length; every conversion (from_arrival_bound[_until], From<...>) must dominate its source far beyond the prefix and coincide on the covered prefix; delta_min_iter must be the exact dual.",
   note=EX_NOTE),
 "C13": dict(cat="exploration", ref="§6 C13", tech="exhaustive enumeration of super-additive prefixes and of all query histories (operation sequences) on shared ExtrapolatingCurve clones",
   text="Every super-additive delta-min prefix of the box x every extrapolation argument: prefix unchanged, never more arrivals than the plain curve, still dominates the automaton's max_events. Every operation history up to depth 5 over number_arrivals / steps_iter / jittered / aggregated queries on two clones sharing the cache is replayed on fresh objects and every answer compared with an eagerly extrapolated Curve; panics (BorrowMutError) are violations.",
   note=EX_NOTE),
 "C14": dict(cat="exploration", ref="§6 C14", tech="exhaustive enumeration of cost traces / vectors / prefixes and of all query histories on shared wcet::ExtrapolatingCurve clones",
   text="All cost traces of the box x max_n: the inferred curve must bound every run of n consecutive jobs for all n; cost_of_jobs / job_cost_iter / least_wcet laws for all models; extrapolation never raises; every query history up to depth 5 on two clones equals a fresh object.",
   note=EX_NOTE),
 "C15": dict(cat="exploration", ref="§6 C15", tech="exhaustive grid enumeration against an independent log-space Poisson CDF",
   text="Every (rate, epsilon, delta) of the grid (means from 0 into the thousands): number_arrivals must terminate and equal the smallest n with CDF(n) >= 1-epsilon (tolerance band for knife-edge cases), be 0 at 0 and monotone; arrival_probability equals the pmf. Weakest fit for this technique: the parameter space is continuous, nothing is claimed off-grid.",
   note=EX_NOTE + " Each call runs in a watchdog-guarded worker so non-termination is reported, not suffered."),
 "C16": dict(cat="exploration", ref="§6 C16", tech="bounded-exhaustive enumeration of (arrival, cost) compositions against recomputation from components",
   text="Every (arrival, cost) pair of the menus and every nesting of Aggregate / Slice / boxed / referenced up to depth 2: the additive identities of the statement are recomputed from the components for all delta up to a horizon and all job limits.",
   note=EX_NOTE),
 "C17": dict(cat="exploration", ref="§6 C17", tech="bounded-exhaustive enumeration of (base system, single hardening) pairs",
   text="Every base system of the box x every single-parameter hardening (WCET+1, jitter+1, blocking+1, segment+1, period-1, one more interfering task/callback, weaker supply, larger limit) for the nine dedicated analyses and the six ROS 2 analyses: Ok(a)->Ok(b>=a)|Err, Err->Err, larger limit keeps Ok.",
   note=EX_NOTE),
 "C18": dict(cat="model_checking", ref="§6 C18", tech="explicit-state model checking: exact worst-case response time of the scheduler model (fixpoint) == returned bound; far-window tightness of auto-extrapolating curves against the Dmin automaton",
   text="By-product of the C01/C03 searches with strictly periodic automata: when a system's search is complete (no cap hit) the maximum response time over all completion transitions of the model must equal the bound returned by fully preemptive FP, non-preemptive FP and FIFO; a witness trace is extracted and re-validated for sampled systems.",
   note=MC_NOTE),
 "C19": dict(cat="exploration", ref="§6 C19", tech="bounded-exhaustive enumeration of inputs in the common special cases of analysis pairs",
   text="Every analysis pair listed in the statement evaluated on every input of the box lying in the common special case; results including Err must be identical.",
   note=EX_NOTE),
 "C20": dict(cat="exploration", ref="§6 C20", tech="differential execution of identical exhaustive case streams in two build profiles (release vs debug-assertions+overflow-checks) with panic capture and hang watchdog",
   text="The case streams of the other checks plus constructor/query cases are executed by two binaries built from the same sources (optimised without, and optimised with debug assertions and overflow checks so the library's cfg(debug_assertions) cross-checks run); every case under catch_unwind with a watchdog; outcomes must be panic-free, terminate and be identical across profiles.",
   note=EX_NOTE + " Well-formedness filter = exactly the list in the statement."),
}

BUILT_FILE = os.path.join(ROOT, "tools", "built.txt")

def main():
    built = sys.argv[1:] or open(BUILT_FILE).read().split()
    props = [json.loads(l) for l in open(os.path.join(ROOT, "properties.jsonl"))]
    ids = [p["id"] for p in props]
    checks, na = [], []
    for i in ids:
        e = P[i]
        if i in built:
            checks.append({
                "property_id": i,
                "quick_cmd": f"./run.sh {i} quick",
                "thorough_cmd": f"./run.sh {i} thorough",
                "evidence_file": f"/verif/evidence/{i}.json",
                "replay_cmd_template": "./run.sh replay {path}",
                "engine": "rtamc",
                "level_claimed": {"category": e["cat"], "text": e["text"], "design_ref": e["ref"]},
                "level_note": e["note"],
                "technique": e["tech"],
            })
        else:
            na.append({"property_id": i, "reason": "check not built yet in this commit (work in progress; see DESIGN.md §6 for the planned model-checking approach)"})
    m = {
        "version": 1,
        "setup_cmd": "./run.sh setup",
        "hooks": {
            "guard": "rta_verif",
            "enable": "none needed: every property is observable at the public API; the harness links /repo as a path dependency and rebuilds it from the working tree on every run (RUSTFLAGS='--cfg rta_verif' would enable hooks if any existed)",
            "baseline_off_cmd": "cd /repo && cargo test --workspace --no-fail-fast --offline",
            "source_commits": [],
            "add_only": True,
        },
        "engines": [
            {"name": "rtamc", "path": "/verif/harness", "serves_properties": [c["property_id"] for c in checks],
             "kind_free_text": "Rust harness: hand-rolled explicit-state explorer (DFS fixpoint, BFS shortest traces) over scheduler / ROS 2 executor / reservation / arrival automata, cross-checked against stateright 0.31; bounded-exhaustive case enumerators with naive reference evaluators; independent trace checker binding model traces to the library's number_arrivals"},
        ],
        "checks": checks,
        "not_applicable": na,
        "notes": "All checks: exit 0 = held on everything explored (KNOWN-FINDING lines possible), exit 1 = VIOLATION lines, exit 2 = machinery error (never a verdict). known_findings.json is never written at run time.",
    }
    # (an empty list is kept on purpose: every listed property is claimed)
    json.dump(m, open(os.path.join(ROOT, "MANIFEST.json"), "w"), indent=1)
    print("MANIFEST.json:", len(checks), "checks,", len(na), "not_applicable")

main()
