#!/bin/bash
# tools/try_mutant.sh <patch.diff> <tier> <ID> [<ID> ...]
# Applies a patch to /repo, runs the given checks, prints one line per check
# (exit code, number of VIOLATION lines, distinct keys), and ALWAYS reverts /repo afterwards.
# Evidence files are saved and restored so a mutant run never leaves evidence of a broken tree.
set -u
PATCH="$1"; TIER="$2"; shift 2
ROOT="$(cd "$(dirname "$0")/.." && pwd)"
if [ -n "$(git -C /repo status --porcelain -- src)" ]; then echo "refusing: /repo has local changes"; exit 2; fi
SAVE=$(mktemp -d)
cp -a "$ROOT/evidence/." "$SAVE/" 2>/dev/null
# (the harness binaries are rebuilt against the restored tree at the end, so that nobody who runs
#  harness/target/release/rtamc directly afterwards gets the binary of the changed tree)
trap 'git -C /repo checkout -- . ; cp -a "$SAVE/." "$ROOT/evidence/" 2>/dev/null; rm -rf "$SAVE"; "$ROOT/run.sh" setup >/dev/null 2>&1' EXIT
if ! git -C /repo apply "$PATCH"; then echo "patch does not apply"; exit 2; fi
for id in "$@"; do
  LOG=$(mktemp)
  "$ROOT/run.sh" "$id" "$TIER" >"$LOG" 2>&1
  rc=$?
  nv=$(grep -c '^VIOLATION' "$LOG")
  keys=$(grep '^VIOLATION' "$LOG" | sed -n 's/.*key=\([^ ]*\).*/\1/p' | sort -u | head -6 | tr '\n' ' ')
  echo "$id $TIER exit=$rc violation_lines=$nv keys: $keys"
  if [ "$rc" = 2 ]; then grep -m3 'MACHINERY' "$LOG"; fi
  if [ -n "${KEEP_LOG:-}" ]; then cp "$LOG" "/tmp/mutant_${id}.log"; fi
  rm -f "$LOG"
done
